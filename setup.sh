#!/bin/sh
# Offline setup: make sure hypothesis imports under /venv (it is normally already there) and,
# for the thorough tier of C08/C14, atheris into /verif/.deps.  Nothing is fetched from a network.
cd "$(dirname "$0")" || exit 1
export PIP_NO_INDEX=1
/venv/bin/python -c "import hypothesis" 2>/dev/null || \
  /venv/bin/pip install --no-index --find-links /opt/veriftools/wheels hypothesis || exit 1
/venv/bin/python -c "import sys; sys.path.insert(0, '.deps'); import atheris" 2>/dev/null || \
  /venv/bin/pip install --no-index --find-links /opt/veriftools/wheels --target .deps atheris >/dev/null 2>&1 || \
  echo "note: atheris not installable; thorough tiers fall back to Hypothesis-only"
/venv/bin/python -c "import hypothesis; print('hypothesis', hypothesis.__version__)"
mkdir -p evidence replays
exit 0
