#!/bin/bash
# Development aid (never run by a registered check): prepare one round of seeded-breakage work.
# For every property it creates a scratch git worktree of /repo under /tmp and an output directory holding the
# property's JSON text and the brief for a sub-agent that sees NOTHING of /verif.  Usage: tools/seeded_round.sh <N>
# Afterwards each agent gets: "Your complete task description is in /tmp/seed<N>_out_<Cnn>/prompt.txt ...".
# tools/seeded_import.py-style copying of the deliverables into /verif/seeded/<Cnn>_<x>/ is done by hand after
# `tools/seeded.py <ids> --demo --tests` confirmed them.  Remove the worktrees with
#   git -C /repo worktree remove --force /tmp/seed<N>_<Cnn>
set -e
N=${1:?round number}
cd /repo
for i in 01 02 03 04 05 06 07 08 09 10 11 12 13 14 15 16 17 18 19 20; do
  git worktree add -q --detach /tmp/seed${N}_C$i HEAD
  mkdir -p /tmp/seed${N}_out_C$i
done
cat > /tmp/seed_prompt.txt <<'EOF'
You are helping to evaluate a verification effort for the Python refactoring library "rope" (python-rope/rope 1.14). Your job is to play the role of a developer who introduces a realistic, subtle regression.

Your private scratch checkout of the library is the git worktree at /tmp/seedN_CXX (a detached checkout; the package is /tmp/seedN_CXX/rope, the tests are /tmp/seedN_CXX/ropetest). Work ONLY inside /tmp/seedN_CXX and write your deliverables to /tmp/seedN_out_CXX. Never read, write or run anything in /repo or /verif, and do not commit anything anywhere. There is no network. Use /venv/bin/python (3.12; pytest and pytest-xdist are installed). When you run Python against your checkout ALWAYS set PYTHONPATH=/tmp/seedN_CXX (or run from inside /tmp/seedN_CXX) so that `import rope` resolves to your checkout (assert rope.__file__ in every script).

The semantic property you must break is described in /tmp/seedN_out_CXX/property.json (read it first; its "anchors" point at the relevant code). In short it is property CXX: "TITLE".

Task: produce TWO independent source changes to the rope package (call them A and B; different root causes / different code sites) such that, for each one on its own:
 1. the package still imports and the existing test suite still passes completely:
      cd /tmp/seedN_CXX && /venv/bin/python -m pytest -q -p no:cacheprovider -n 4
    must report exactly the same result as on the unmodified checkout (2104 passed, 11 skipped, 5 xfailed);
 2. the property is genuinely violated for some inputs/histories - i.e. a user relying on the property as stated would get a wrong result (not just a different-but-equally-valid one);
 3. the violation is NOT trivial to hit: it must need something specific to manifest - an unusual but legal input shape, a particular multi-step sequence of API calls, a fault/crash at a particular point, a particular interleaving of cache-filling queries and mutations, or two cooperating code sites. Think of the kind of bug that slips through code review: an off-by-one in a rarely taken branch, a dropped invalidation, a wrong operand order that only matters for some inputs, a condition narrowed or widened slightly, a missing case for one syntax form, a rollback step skipped in one branch, etc. Keep each change small (a few lines) and realistic - no `if input == magic:` special-casing, no random behaviour, no environment checks.
 4. you provide a demonstration script that uses only rope's public API (and the standard library) on a temporary project directory (create it with tempfile and remove it at the end), which exits with status 1 (printing what went wrong) when run against the changed code and exits with status 0 when run against the unmodified code. The demonstration must show the property being violated, not merely that the code differs.

Deliverables (all under /tmp/seedN_out_CXX):
   a/patch.diff   - `git diff` of change A relative to the checkout's HEAD (apply-able with `git apply` from the repository root)
   a/demo.py      - the demonstration for A; run as: PYTHONPATH=<checkout> /venv/bin/python demo.py
   a/meta.json    - {"property": "CXX", "summary": "...what was changed...", "why_it_breaks": "...", "what_it_needs_to_manifest": "...", "files": [...]}
   b/patch.diff, b/demo.py, b/meta.json - the same for change B.
Before finishing: restore the checkout (`git -C /tmp/seedN_CXX checkout -- .`), then for each of A and B verify from the clean state: demo exits 0 on the clean checkout; after `git -C /tmp/seedN_CXX apply /tmp/seedN_out_CXX/<x>/patch.diff` the demo exits 1 and the full test suite still gives 2104 passed, 11 skipped, 5 xfailed; then restore the checkout again. Leave the checkout clean at the end. If a candidate change makes any existing test fail, discard or refine it - do not edit tests.

In your final message report, for A and B: the one-line summary, the file(s) touched, and the verified results. If you could only produce one change, say so.
EOF
sed -i "s/seedN/seed${N}/g" /tmp/seed_prompt.txt
/venv/bin/python - "$N" <<'EOF'
import json, glob, sys
n = sys.argv[1]
t = open('/tmp/seed_prompt.txt').read()
for l in open('/verif/properties.jsonl'):
    d = json.loads(l); pid = d['id']
    open('/tmp/seed%s_out_%s/property.json' % (n, pid), 'w').write(json.dumps(d, indent=1))
    tried = []
    for sd in sorted(glob.glob('/verif/seeded/%s_*' % pid)):
        m = json.load(open(sd + '/meta.json'))
        files = m.get('files')
        tried.append("- %s (files: %s)" % (str(m.get('summary', ''))[:260].replace('\n', ' '), ', '.join(files) if isinstance(files, list) else files))
    p = t.replace('CXX', pid).replace('TITLE', d['title'])
    if tried:
        p += ("\nThis is a LATER round. The following changes were already produced for this property in earlier rounds; do NOT repeat them or close variants of them - pick different code sites, different mechanisms and different input shapes. Read the property statement clause by clause and the quantifier text, and aim at clauses, API entry points, option values and anchored files that the list below has not touched yet:\n"
              + "\n".join(tried) + "\n")
    open('/tmp/seed%s_out_%s/prompt.txt' % (n, pid), 'w').write(p)
print('prepared round', n)
EOF
