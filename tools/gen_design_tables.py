#!/venv/bin/python
"""Prints the generated tables of DESIGN.md section 6 (fixes, known findings) from known_findings.json."""
import json, os, subprocess, textwrap
HERE = os.path.dirname(os.path.dirname(os.path.abspath(__file__)))
d = json.load(open(os.path.join(HERE, "known_findings.json")))
log = dict(l.split(" ", 1) for l in subprocess.run(["git", "-C", "/repo", "log", "--format=%h %s"], capture_output=True, text=True).stdout.splitlines())
print("#### Repairs (`fix:` commits in /repo)\n")
print("| property | commit | subject | what failed (replay in findings/) |")
print("|---|---|---|---|")
for e in d["findings"]:
    if e["status"] == "fixed":
        c = e.get("commit", "")[:7]
        print("| %s | %s | %s | %s (`%s`) |" % (e["property"], c, log.get(c, "?").replace("|", "/"), e["what"].replace("|", "/")[:260], e["replay"]))
print("\n#### Recorded findings (status known)\n")
by = {}
for e in d["findings"]:
    if e["status"] == "known":
        by.setdefault(e["property"], []).append(e)
for pid in sorted(by):
    es = by[pid]
    if pid == "C09":
        sites = [e for e in es if e.get("predicate", "").startswith("site:")]
        other = [e for e in es if e not in sites]
        print("**%s** — %d call-site findings (internal exception instead of a RopeError, keyed `site:<request kind>:<exception>:<innermost rope frame>`):" % (pid, len(sites)))
        for e in sites:
            print("  * `%s`" % e["predicate"])
        es = other
        if es:
            print()
    else:
        print("**%s**" % pid)
    for e in es:
        print("  * `%s` — %s" % (e.get("predicate"), e["what"].replace("\n", " ")[:330]))
    print()
