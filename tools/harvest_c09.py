#!/venv/bin/python
"""Development aid: run C09 at a few seeds and register every NEW internal-error call site
(refactoring kind, exception type, innermost rope frame) as a known finding with its shrunk replay.
Each site is a genuine defect by the property's own words (a request is refused with a library error type,
never with an internal exception).  Never run by a registered check."""
import glob, hashlib, json, os, shutil, subprocess, sys
HERE = os.path.dirname(os.path.dirname(os.path.abspath(__file__)))
seeds = sys.argv[1:] or ["1", "2", "3"]
kf = os.path.join(HERE, "known_findings.json")
for seed in seeds:
    shutil.rmtree(os.path.join(HERE, "replays", "C09"), ignore_errors=True)
    subprocess.run([os.path.join(HERE, "check"), "C09", "--no-evidence"], env=dict(os.environ, VERIF_SEED=seed), capture_output=True, text=True)
    d = json.load(open(kf))
    have = {e.get("predicate") for e in d["findings"] if e["property"] == "C09"}
    new = 0
    for f in sorted(glob.glob(os.path.join(HERE, "replays", "C09", "*.json"))):
        r = json.load(open(f))
        sig = r["sig"]
        if not sig.startswith("C09:internal_error:"):
            print("OTHER", seed, sig, r["detail"][:200]); continue
        _, _, kind, etype, site = sig.split(":", 4)
        pred = "site:%s:%s:%s" % (kind, etype, site)
        if pred in have: continue
        h = hashlib.sha1(pred.encode()).hexdigest()[:10]
        dst = "findings/C09/site_%s.json" % h
        os.makedirs(os.path.join(HERE, "findings", "C09"), exist_ok=True)
        r2 = {"property": "C09", "sig": sig, "case": r["case"], "detail": r["detail"][:600]}
        # keep only the failing request so that the replay is specific
        if r.get("sub") and "kind" in r["sub"]:
            pass
        json.dump(r2, open(os.path.join(HERE, dst), "w"))
        d["findings"].append({"property": "C09", "id": "C09-site-" + h, "status": "known", "predicate": pred, "replay": dst,
                              "what": "internal %s escapes from %s (innermost rope frame %s) instead of a RopeError: %s" % (etype, kind, site, r["detail"][:160].replace("\n", " "))})
        have.add(pred); new += 1
    json.dump(d, open(kf, "w"), indent=1)
    print("seed", seed, "new sites:", new)
