#!/bin/bash
# Development aid: copy the deliverables of a seeded round into /verif/seeded/<Cnn>_<x>/ (never run by a check).
# usage: tools/seeded_import.sh <round> <suffix for a> <suffix for b> Cnn [Cnn ...]
N=$1; SA=$2; SB=$3; shift 3
for c in "$@"; do
  for pair in "a:$SA" "b:$SB"; do
    src=/tmp/seed${N}_out_$c/${pair%%:*}; dst=/verif/seeded/${c}_${pair##*:}
    if [ -f $src/patch.diff ] && [ -f $src/demo.py ] && [ -f $src/meta.json ]; then
      mkdir -p $dst && cp $src/patch.diff $src/demo.py $src/meta.json $dst/ && echo "imported $dst"
    else
      echo "MISSING $src"
    fi
  done
done
