#!/opt/veriftools/pyvenv/bin/python
import json, jsonschema, glob, sys
ok = True
jsonschema.validate(json.load(open('/verif/MANIFEST.json')), json.load(open('/root/.vp/MANIFEST.schema.json')))
print("manifest ok")
es = json.load(open('/root/.vp/EVIDENCE.schema.json'))
for f in sorted(glob.glob('/verif/evidence/*.json')):
    try:
        jsonschema.validate(json.load(open(f)), es); print("ok", f)
    except Exception as e:
        ok = False; print("INVALID", f, str(e)[:300])
sys.exit(0 if ok else 1)
