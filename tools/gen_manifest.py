#!/venv/bin/python
"""Regenerates MANIFEST.json from the property modules that exist (run from /verif)."""
import importlib, json, os, sys
HERE = os.path.dirname(os.path.dirname(os.path.abspath(__file__)))
sys.path[:0] = [HERE, os.environ.get("ROPE_SRC", "/repo")]
from vlib import core

NOTES = json.load(open(os.path.join(HERE, "tools", "manifest_notes.json")))
checks, na = [], []
for pid, modname in sorted(core.PROPS.items()):
    path = os.path.join(HERE, modname.replace(".", "/") + ".py")
    note = NOTES.get(pid, {})
    if not os.path.exists(path) or note.get("disabled"):
        na.append({"property_id": pid, "reason": note.get("na_reason", "check not built yet in this round (planned in DESIGN.md section 2); nothing is claimed for it")})
        continue
    mod = importlib.import_module(modname)
    checks.append({
        "property_id": pid,
        "quick_cmd": "./check %s --tier quick" % pid,
        "thorough_cmd": "./check %s --tier thorough" % pid,
        "evidence_file": "evidence/%s.json" % pid,
        "replay_cmd_template": "./check %s --replay {path}" % pid,
        "engine": "vlib",
        "level_claimed": {"category": mod.LEVEL, "text": note.get("level_text", mod.RULE), "design_ref": "DESIGN.md section 2 (design) and 6.2 (as built), " + pid},
        "level_note": note.get("level_note", "; ".join(mod.ASSUMPTIONS)),
        "technique": mod.TECHNIQUE,
    })
manifest = {
    "version": 1,
    "setup_cmd": "./setup.sh",
    "hooks": {
        "guard": "ROPE_VERIF",
        "enable": "no source hooks: checks import /repo's working tree directly (PYTHONPATH=/repo) and observe through public API, a custom fscommands, TaskHandle observers and in-process patching of open/os.replace",
        "baseline_off_cmd": "cd /repo && /venv/bin/python -m pytest -q -p no:cacheprovider -n 16",
        "source_commits": [],
        "add_only": True,
    },
    "engines": [
        {"name": "vlib", "path": "vlib/", "serves_properties": [c["property_id"] for c in checks],
         "kind_free_text": "Hypothesis 6.168 campaigns sharded over 16 forked workers (seed = VERIF_SEED*1000+k), collect-then-bucket-then-shrink, known-findings protocol, evidence writer; reference models: virtual file tree, in-process project runner, tokenize/symtable/ast oracles"},
    ],
    "checks": checks,
    "not_applicable": na,
    "notes": "Entry point ./check <Cnn> --tier quick|thorough [--replay F]; exit 0 held / 1 violation / 2 harness error. known_findings.json lists genuine defects recorded (status known) or repaired by fix: commits in /repo (status fixed).",
}
json.dump(manifest, open(os.path.join(HERE, "MANIFEST.json"), "w"), indent=1)
print("checks:", [c["property_id"] for c in checks], "not_applicable:", [n["property_id"] for n in na])
