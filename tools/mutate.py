#!/venv/bin/python
"""Sensitivity validation (DESIGN 1.8): apply each catalogued mutant to a scratch copy of /repo/rope
(under /dev/shm, removed afterwards) and run the quick tier of the property's check against it with
ROPE_SRC pointing at the copy.  usage: tools/mutate.py Cnn [--scale S] [--only NAME] [--keep DIR]
A mutant = {"name", "file", "old", "new"[, "count"]} in mutants/<Cnn>.json.
Exit 0 iff every mutant was detected (check exit 1)."""
import json, os, shutil, subprocess, sys, tempfile
HERE = os.path.dirname(os.path.dirname(os.path.abspath(__file__)))
pid = sys.argv[1].upper()
scale = "1"
only = None
if "--scale" in sys.argv: scale = sys.argv[sys.argv.index("--scale") + 1]
if "--only" in sys.argv: only = sys.argv[sys.argv.index("--only") + 1]
keep = sys.argv[sys.argv.index("--keep") + 1] if "--keep" in sys.argv else None  # copy the (shrunk) replays of each mutant there
muts = json.load(open(os.path.join(HERE, "mutants", pid + ".json")))
missed = []
for m in muts:
    if only and m["name"] != only: continue
    d = tempfile.mkdtemp(prefix="ropemut-", dir="/dev/shm")
    try:
        shutil.copytree("/repo/rope", os.path.join(d, "rope"), ignore=shutil.ignore_patterns("__pycache__"))
        fp = os.path.join(d, m["file"])
        s = open(fp).read()
        edits = m.get("edits") or [[m["old"], m["new"]]]
        if any(s.count(o) < 1 for o, n in edits):
            print("MUTANT-STALE", m["name"]); missed.append(m["name"]); continue
        for o, n in edits:
            s = s.replace(o, n, m.get("count", 1))
        open(fp, "w").write(s)
        env = dict(os.environ, ROPE_SRC=d, VERIF_REEXEC="0", VERIF_NOSHRINK="1", VERIF_REPLAY_DIR=os.path.join(d, "replays"))
        env.pop("PYTHONPATH", None)
        if keep: env.pop("VERIF_NOSHRINK")
        r = subprocess.run([os.path.join(HERE, "check"), pid, "--scale", scale, "--no-evidence"], env=env, capture_output=True, text=True)
        buckets = [l for l in r.stdout.splitlines() if l.startswith("violation bucket") or l.startswith("fixed finding")]
        status = {0: "MISSED", 1: "DETECTED", 2: "HARNESS-ERROR"}.get(r.returncode, "?")
        print("%-14s %-40s %s" % (status, m["name"], (buckets[0][:150] if buckets else r.stdout.strip().splitlines()[-1][:150] if r.stdout.strip() else r.stderr[-300:])))
        if r.returncode == 2: print("   | " + "\n   | ".join((r.stdout + r.stderr).strip().splitlines()[-12:]))
        if r.returncode != 1: missed.append(m["name"])
        if keep and os.path.isdir(os.path.join(d, "replays")):
            shutil.copytree(os.path.join(d, "replays"), os.path.join(keep, m["name"]), dirs_exist_ok=True)
    finally:
        shutil.rmtree(d, ignore_errors=True)
print("missed:", missed)
sys.exit(1 if missed else 0)
