#!/venv/bin/python
"""Rebuilds section 6 of DESIGN.md from tools/design6_head.md, the generated tables (fixes, findings: known_findings.json;
mutants: mutants/RESULTS.txt; seeded changes: seeded/*/meta.json + seeded/RESULTS.json) and tools/design6_tail.md."""
import glob, json, os, subprocess
HERE = os.path.dirname(os.path.dirname(os.path.abspath(__file__)))
d = open(os.path.join(HERE, "DESIGN.md")).read()
marker = "---------------------------------------------------------------------------------------------------\n\n## 6. As built"
if marker in d:
    d = d[: d.index(marker)]
d = d.rstrip("\n") + "\n\n"
head = open(os.path.join(HERE, "tools", "design6_head.md")).read()
tail = open(os.path.join(HERE, "tools", "design6_tail.md")).read()
tables = subprocess.run(["/venv/bin/python", os.path.join(HERE, "tools", "gen_design_tables.py")], capture_output=True, text=True).stdout
fix_part, find_part = tables.split("#### Recorded findings (status known)")
sec63 = "### 6.3 Repairs made in /repo\n\nEach is one unguarded `fix:` commit; the pinned suite gave 2104 passed, 11 skipped, 5 xfailed after each. A fixed entry suppresses\nnothing: its replay runs in every check and must pass.\n\n" + fix_part.replace("#### Repairs (`fix:` commits in /repo)\n\n", "")
sec64 = "### 6.4 Recorded findings (known_findings.json, status known)\n\nEach has a replay under `findings/`; the check prints `KNOWN-FINDING:` for it while it reproduces and excludes (and counts) the\ncases its input predicate matches. A violation that matches no predicate is reported.\n" + find_part
mut = ""
rp = os.path.join(HERE, "mutants", "RESULTS.txt")
if os.path.exists(rp):
    mut = open(rp).read()
sec65 = "### 6.5 Sensitivity: catalogued mutants (`tools/mutate.py Cnn`, quick tier, seed 1)\n\n" + (
    "Each mutant is applied to a scratch copy of `/repo/rope` under `/dev/shm`; DETECTED = the quick tier exits 1. Mutants that turned out\n"
    "equivalent under the property's observations were dropped from the catalogue during the build: C11 `old_contents_recaptured`, C12\n"
    "isalnum-on-encode, the C16 error-replace pair, C08 `compare_ops_swapped`, C09 `file_list_includes_ignored`, C14 `real_code_keeps_tabs`,\n"
    "C19 `children_length`, C13 `validate_ignores_external_removals`. C03 `loop_context_ignored` was masked by a recorded finding until that\n"
    "finding's predicate was narrowed (6.6); the seeded change C03_a is the same edit and is detected.\n"
    "The table is the catalogue's last full run (`mutants/RESULTS.txt` says when); the seeded changes of 6.6 are re-run against the final\n"
    "tree. The anchors of all 155 mutants were re-checked against the final `/repo` (one had to be refreshed after a repair), and the\n"
    "catalogues of C01, C03 and C14 - the checks whose generators and predicates changed most at the end - were re-run on it: all detected.\n\n```\n" + mut + "```\n\n"
)
rows = ["| id | property | change (from its meta.json) | quick tier of the property's check |", "|---|---|---|---|"]
res = {}
rj = os.path.join(HERE, "seeded", "RESULTS.json")
if os.path.exists(rj):
    res = json.load(open(rj)).get("results", {})
for sd in sorted(glob.glob(os.path.join(HERE, "seeded", "C*_*"))):
    sid = os.path.basename(sd)
    meta = json.load(open(os.path.join(sd, "meta.json")))
    r = res.get(sid, {}).get("checks", {})
    cell = "; ".join("%s: %s%s" % (pid, v["status"], (" — `%s`" % v["first_bucket"].replace("violation bucket ", "").strip("'")[:70]) if v.get("first_bucket") else "") for pid, v in sorted(r.items())) or "not run"
    rows.append("| %s | %s | %s | %s |" % (sid, meta.get("property"), str(meta.get("summary", "")).replace("|", "/").replace("\n", " ")[:230], cell))
tail = tail.replace("GENERATED:SEEDED_TABLE", "\n".join(rows))
open(os.path.join(HERE, "DESIGN.md"), "w").write(d + head.rstrip("\n") + "\n\n" + sec63 + "\n" + sec64 + "\n" + sec65 + tail)
print("DESIGN.md rebuilt")
