#!/venv/bin/python
"""Seeded-change validation (DESIGN 6.6): every directory seeded/<id>/ holds a realistic breaking change produced by
somebody who saw only the text of one property: patch.diff, demo.py (exit 1 with the change, 0 without), meta.json.

usage: tools/seeded.py [ID ...] [--tests] [--demo] [--check] [--record] [--tier quick|thorough] [--scale S] [--props C01,C02]
  --demo   run the demonstration against /repo (expect 0) and against a patched scratch copy (expect 1)
  --tests  run the pinned test suite in the patched scratch copy (expect 2104 passed)
  --check  run ./check for the property named in meta.json (or --props) with ROPE_SRC = patched scratch copy
Nothing is ever applied to /repo; scratch copies live under /dev/shm and are removed."""
import json, os, re, shutil, subprocess, sys, tempfile

HERE = os.path.dirname(os.path.dirname(os.path.abspath(__file__)))
args = sys.argv[1:]
flags = {a for a in args if a.startswith("--")}
def opt(name, default=None):
    return args[args.index(name) + 1] if name in args else default
tier = opt("--tier", "quick")
scale = opt("--scale", "1")
props = opt("--props")
skip = set()
for o in ("--tier", "--scale", "--props"):
    if o in args:
        skip.add(args.index(o)); skip.add(args.index(o) + 1)
ids = [a for i, a in enumerate(args) if i not in skip and not a.startswith("--")]
root = os.path.join(HERE, "seeded")
if not ids:
    ids = sorted(d for d in os.listdir(root) if os.path.isdir(os.path.join(root, d)))
do_all = not (flags & {"--demo", "--tests", "--check"})
bad = 0
record = {}
for sid in ids:
    sd = os.path.join(root, sid)
    meta = json.load(open(os.path.join(sd, "meta.json")))
    d = tempfile.mkdtemp(prefix="ropeseed-", dir="/dev/shm")
    try:
        for name in os.listdir("/repo"):
            if name in (".git", ".pytest_cache", "__pycache__"):
                continue
            src = os.path.join("/repo", name)
            (shutil.copytree if os.path.isdir(src) else shutil.copy2)(src, os.path.join(d, name), **({"ignore": shutil.ignore_patterns("__pycache__")} if os.path.isdir(src) else {}))
        r = subprocess.run(["git", "apply", "--whitespace=nowarn", os.path.join(sd, "patch.diff")], cwd=d, capture_output=True, text=True)
        if r.returncode:
            print("%-10s PATCH-DOES-NOT-APPLY %s" % (sid, r.stderr.strip()[:200])); bad += 1; continue
        line = "%-10s %s" % (sid, meta.get("property"))
        if do_all or "--demo" in flags:
            env = dict(os.environ, PYTHONHASHSEED="0")
            c = subprocess.run(["/venv/bin/python", os.path.join(sd, "demo.py")], env=dict(env, PYTHONPATH="/repo"), cwd="/dev/shm", capture_output=True, text=True)
            p = subprocess.run(["/venv/bin/python", os.path.join(sd, "demo.py")], env=dict(env, PYTHONPATH=d), cwd="/dev/shm", capture_output=True, text=True)
            ok = c.returncode == 0 and p.returncode == 1
            line += "  demo clean=%d patched=%d %s" % (c.returncode, p.returncode, "ok" if ok else "DEMO-BAD")
            bad += 0 if ok else 1
        if "--tests" in flags:
            t = subprocess.run(["/venv/bin/python", "-m", "pytest", "-q", "-p", "no:cacheprovider", "-n", "16"], cwd=d, capture_output=True, text=True)
            tail = t.stdout.strip().splitlines()[-1] if t.stdout.strip() else t.stderr[-200:]
            ok = "2104 passed" in tail and not re.search(r"\b\d+ (failed|error)", tail)
            line += "  tests: %s %s" % (re.sub(r" in [0-9.]+s.*", "", tail), "ok" if ok else "TESTS-BAD")
            bad += 0 if ok else 1
        if do_all or "--check" in flags:
            for pid in (props.split(",") if props else meta.get("checks") or [meta["property"]]):
                env = dict(os.environ, ROPE_SRC=d, VERIF_REEXEC="0", VERIF_NOSHRINK="1", VERIF_REPLAY_DIR=os.path.join(d, "replays"))
                env.pop("PYTHONPATH", None)
                r = subprocess.run([os.path.join(HERE, "check"), pid, "--tier", tier, "--scale", scale, "--no-evidence"], env=env, capture_output=True, text=True)
                buckets = [l for l in r.stdout.splitlines() if l.startswith("violation bucket") or l.startswith("fixed finding")]
                status = {0: "MISSED", 1: "DETECTED", 2: "HARNESS-ERROR"}.get(r.returncode, "?")
                line += "\n           check %s: %s %s" % (pid, status, (buckets[0][:170] if buckets else (r.stdout.strip().splitlines() or [r.stderr[-200:]])[-1][:170]))
                record.setdefault(sid, {"property": meta.get("property"), "checks": {}})["checks"][pid] = {"status": status, "first_bucket": (buckets[0].split(" seen ")[0] if buckets else "")}
                if r.returncode != 1:
                    bad += 1
        print(line, flush=True)
    finally:
        shutil.rmtree(d, ignore_errors=True)
if "--record" in flags:
    rpath = os.path.join(root, "RESULTS.json")
    merged = {}
    if os.path.exists(rpath) and any(not a.startswith("--") and a.upper().startswith("C") and "_" in a for a in sys.argv[1:]):
        # only some changes were run: keep the recorded results of the others
        try:
            merged = json.load(open(rpath)).get("results", {})
        except Exception:
            merged = {}
    merged.update(record)
    with open(rpath, "w") as f:
        json.dump({"tier": tier, "scale": scale, "results": merged}, f, indent=1, sort_keys=True)
sys.exit(1 if bad else 0)
