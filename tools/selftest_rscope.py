#!/venv/bin/python
"""Harness self-check: R-SCOPE's bound-name sets agree with CPython's symtable on generated and corpus texts."""
import ast, os, sys, symtable
HERE = os.path.dirname(os.path.dirname(os.path.abspath(__file__)))
sys.path[:0] = [HERE, os.environ.get("ROPE_SRC", "/repo")]
from vlib import rscope, srcgen

def sym_bound(t):
    out = set()
    for s in t.get_symbols():
        n = s.get_name()
        if n.startswith("."): continue
        if t.get_type() == "module":
            if s.is_assigned() or s.is_imported() or s.is_namespace(): out.add(n)
        elif s.is_local() and (s.is_assigned() or s.is_parameter() or s.is_imported() or s.is_namespace() or s.is_annotated()):
            out.add(n)
    return out

def compare(src):
    tree = ast.parse(src)
    root = rscope.build(tree)
    st = symtable.symtable(src, "m", "exec")
    msgs = []
    def rec(rs, t):
        mine = set(rs.bound) | set(rs.annotated_only)
        if rs.kind == "module":
            mine = set(rs.bound)
        want = sym_bound(t)
        if rs.kind == "module":
            want -= {n for n in want if n in rs.annotated_only and n not in rs.bound}
        # CPython 3.12 lists the variables of inlined list/set/dict comprehensions in the enclosing table
        inl = set()
        def comp_targets(c):
            for g in c.node.generators:
                for n in ast.walk(g.target):
                    if isinstance(n, ast.Name): inl.add(n.id)
            for cc in c.children:
                if cc.kind == "comp" and not isinstance(cc.node, ast.GeneratorExp): comp_targets(cc)
        for c in rs.children:
            if c.kind == "comp" and not isinstance(c.node, ast.GeneratorExp): comp_targets(c)
        want -= (inl - mine)
        # private-name mangling inside classes
        def mangle(n, r=rs):
            k = r
            while k is not None and k.kind != "class": k = k.parent
            if k is not None and n.startswith("__") and not n.endswith("__"): return "_" + k.name.lstrip("_") + n
            return n
        mine = {mangle(n) for n in mine}
        if mine != want:
            msgs.append("%s %s line %s: mine-only %s sym-only %s" % (rs.kind, rs.name, rs.start, sorted(mine - want), sorted(want - mine)))
        kids = [c for c in t.get_children() if c.get_type() in ("function", "class")]
        kids = [c for c in kids if c.get_name() not in ("listcomp", "setcomp", "dictcomp")]
        mykids = [c for c in rs.children if c.kind in ("function", "class", "lambda") or (c.kind == "comp" and isinstance(c.node, ast.GeneratorExp))]
        # comps other than genexp are inlined by CPython 3.12: their children hang off the enclosing table
        def flat(cs):
            out = []
            for c in cs:
                if c.kind == "comp" and not isinstance(c.node, ast.GeneratorExp):
                    out.extend(flat([x for x in c.children]))
                else:
                    out.append(c)
            return out
        mykids = flat(rs.children)
        if len(kids) != len(mykids):
            msgs.append("%s %s: %d symtable children vs %d" % (rs.kind, rs.name, len(kids), len(mykids)))
            return
        for a, b in zip(mykids, kids):
            rec(a, b)
    rec(root, st)
    return msgs

if __name__ == "__main__":
    from hypothesis import given, settings, seed, HealthCheck
    bad = []
    n = [0]
    @seed(1)
    @settings(max_examples=800, database=None, deadline=None, suppress_health_check=list(HealthCheck))
    @given(srcgen.grammar())
    def t(src):
        if not srcgen.compiles(src) or "pep695" in srcgen.features(src): return
        n[0] += 1
        m = compare(src)
        if m and len(bad) < 5: bad.append((m, src))
    t()
    for f in srcgen.corpus_files()[::7]:
        src = srcgen.read_source(f)
        if src is None or "pep695" in srcgen.features(src): continue
        n[0] += 1
        try:
            m = compare(src)
        except RecursionError:
            continue
        if m and len(bad) < 8: bad.append((m, f))
    print("texts compared:", n[0], "disagreements:", len(bad))
    for m, s in bad:
        print("-----", m[:3]); print(s[:600] if "\n" in s else s)
    sys.exit(1 if bad else 0)
