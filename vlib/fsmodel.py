"""R-FS: virtual trees, snapshots, and a reference interpreter for change specs.

A *tree* is {relative_path: str contents}  for files and {relative_path + "/": None} for folders
(project root itself is implicit).  A *change spec* is JSON:

    ["set", description, [spec, ...]]
    ["edit", path, new_text]
    ["mkfile", parent_path, name]
    ["mkdir", parent_path, name]
    ["move", path, new_path]            (exact destination)
    ["rm", path]
"""
import os

from hypothesis import strategies as st

DIR = None


def write_tree(root, tree):
    for p in sorted(tree):
        if p.endswith("/"):
            os.makedirs(os.path.join(root, p[:-1]), exist_ok=True)
    for p, v in tree.items():
        if not p.endswith("/"):
            fp = os.path.join(root, p)
            os.makedirs(os.path.dirname(fp), exist_ok=True)
            with open(fp, "wb") as f:
                f.write(v.encode("utf-8") if isinstance(v, str) else v)


def snapshot(root, with_mtime=False, skip=(".ropeproject",)):
    """{relpath: bytes} for files, {relpath + '/': None} for folders."""
    out = {}
    for cur, dirs, files in os.walk(root):
        rel = os.path.relpath(cur, root)
        dirs[:] = sorted(d for d in dirs if not (rel == "." and d in skip) and d != "__pycache__")
        if rel != ".":
            out[rel + "/"] = None if not with_mtime else ("dir",)
        for f in sorted(files):
            fp = os.path.join(cur, f)
            key = os.path.normpath(os.path.join(rel, f))
            with open(fp, "rb") as h:
                data = h.read()
            out[key] = data if not with_mtime else (data, os.stat(fp).st_mtime_ns)
    return out


def tree_bytes(tree):
    return {p: (v.encode("utf-8") if isinstance(v, str) else v) for p, v in tree.items()}


def diff_trees(a, b):
    """short human description of a != b"""
    parts = []
    for p in sorted(set(a) | set(b)):
        if p not in a:
            parts.append("+" + p)
        elif p not in b:
            parts.append("-" + p)
        elif a[p] != b[p]:
            parts.append("~" + p)
    return " ".join(parts[:12])


# ----------------------------------------------------------------- reference interpreter


class SpecError(Exception):
    pass


def leaves(spec):
    if spec[0] == "set":
        for c in spec[2]:
            yield from leaves(c)
    else:
        yield spec


def apply_spec(tree, spec):
    """Pure: what performing `spec` must do to `tree` (bytes-valued)."""
    t = dict(tree)
    for leaf in leaves(spec):
        _apply_leaf(t, leaf)
    return t


def _exists(t, p):
    return p in t or p + "/" in t or p == ""


def _apply_leaf(t, leaf):
    k = leaf[0]
    if k == "edit":
        if leaf[1] not in t:
            raise SpecError("edit of missing file " + leaf[1])
        t[leaf[1]] = leaf[2].encode("utf-8")
    elif k in ("mkfile", "mkdir"):
        parent, name = leaf[1], leaf[2]
        if parent and parent + "/" not in t:
            raise SpecError("parent missing " + parent)
        p = (parent + "/" + name) if parent else name
        if _exists(t, p):
            raise SpecError("exists " + p)
        if k == "mkfile":
            t[p] = b""
        else:
            t[p + "/"] = None
    elif k == "move":
        src, dst = leaf[1], leaf[2]
        if _exists(t, dst):
            raise SpecError("destination exists " + dst)
        dpar = os.path.dirname(dst)
        if dpar and dpar + "/" not in t:
            raise SpecError("destination parent missing " + dpar)
        if src + "/" in t:
            if dst == src or dst.startswith(src + "/"):
                raise SpecError("move into itself")
            for p in list(t):
                if p == src + "/" or p.startswith(src + "/"):
                    t[dst + p[len(src):]] = t.pop(p)
        elif src in t:
            t[dst] = t.pop(src)
        else:
            raise SpecError("move of missing " + src)
    elif k == "rm":
        p = leaf[1]
        if p + "/" in t:
            for q in list(t):
                if q == p + "/" or q.startswith(p + "/"):
                    del t[q]
        elif p in t:
            del t[p]
        else:
            raise SpecError("rm of missing " + p)
    else:
        raise SpecError("unknown leaf " + str(k))


def touched_paths(spec):
    """paths named by the spec's leaves (resources rope will report as changed)"""
    out = set()
    for leaf in leaves(spec):
        k = leaf[0]
        if k == "edit" or k == "rm":
            out.add(leaf[1])
        elif k in ("mkfile", "mkdir"):
            out.add((leaf[1] + "/" + leaf[2]) if leaf[1] else leaf[2])
        elif k == "move":
            out.add(leaf[1])
            out.add(leaf[2])
    return out


def has_kind(spec, kind):
    return any(leaf[0] == kind for leaf in leaves(spec))


# ----------------------------------------------------------------- rope Change construction


def build_change(project, spec, tree_before=None):
    """rope Change object for a spec.  Folder-ness of moved/removed paths is decided
    from `tree_before` evolved leaf by leaf (the resource need not exist yet on disk)."""
    from rope.base import change as ch

    t = dict(tree_before) if tree_before is not None else None

    def rec(s):
        if s[0] == "set":
            cs = ch.ChangeSet(s[1])
            for c in s[2]:
                cs.add_change(rec(c))
            return cs
        k = s[0]
        if k == "edit":
            c = ch.ChangeContents(project.get_file(s[1]), s[2])
        elif k == "mkfile":
            c = ch.CreateFile(project.get_folder(s[1]) if s[1] else project.root, s[2])
        elif k == "mkdir":
            c = ch.CreateFolder(project.get_folder(s[1]) if s[1] else project.root, s[2])
        elif k == "move":
            isdir = (s[1] + "/" in t) if t is not None else os.path.isdir(os.path.join(project.address, s[1]))
            res = project.get_folder(s[1]) if isdir else project.get_file(s[1])
            parent = os.path.dirname(s[2])
            if len(s) > 3 and s[3] == "into" and os.path.basename(s[2]) == os.path.basename(s[1]) and os.path.isdir(os.path.join(project.address, parent)):
                # the destination is given as the (existing) folder to move into, '' being the root
                c = ch.MoveResource(res, parent)
            else:
                c = ch.MoveResource(res, s[2], exact=True)
        elif k == "rm":
            isdir = (s[1] + "/" in t) if t is not None else os.path.isdir(os.path.join(project.address, s[1]))
            res = project.get_folder(s[1]) if isdir else project.get_file(s[1])
            c = ch.RemoveResource(res)
        else:
            raise SpecError(k)
        if t is not None:
            _apply_leaf(t, s)
        return c

    return rec(spec)


# ----------------------------------------------------------------- generators

NAMES = ["a", "b", "c", "d", "pk", "sub", "m", "n"]
TEXTS = [
    "x = 1\n",
    "y = 2\nz = 3\n",
    "",
    "def f():\n    return 1\n",
    "# cé 中\n",
    "s = 'no newline'",
    "a = 1\r\nb = 2\r\n",
    "v = 'λ'\n\nw = 2\n",
]


# rope's in-memory text is newline-normalised: edits are LF-only (the on-disk convention is the file's)
EDIT_TEXTS = [t for t in TEXTS if "\r" not in t]


@st.composite
def trees(draw, min_files=2, max_files=5):
    """small random tree: root files, 0-2 folders (one maybe nested), files in them"""
    t = {}
    nd = draw(st.integers(0, 2))
    dirs = [""]
    for i in range(nd):
        parent = draw(st.sampled_from(dirs))
        name = draw(st.sampled_from(["pk", "sub", "dd"]))
        p = (parent + "/" + name) if parent else name
        if p + "/" not in t:
            t[p + "/"] = None
            dirs.append(p)
    nf = draw(st.integers(min_files, max_files))
    for i in range(nf):
        parent = draw(st.sampled_from(dirs))
        name = draw(st.sampled_from(["a", "b", "c", "m", "__init__"])) + ".py"
        p = (parent + "/" + name) if parent else name
        t[p] = draw(st.sampled_from(TEXTS))
    if not any(not p.endswith("/") for p in t):
        t["a.py"] = "x = 1\n"
    return t


def _files(t):
    return sorted(p for p in t if not p.endswith("/"))


def _dirs(t):
    return sorted(p[:-1] for p in t if p.endswith("/"))


@st.composite
def leaf_for(draw, t, counter, allow_rm=True, recent=None):
    """one leaf spec valid on tree t (bytes tree or str tree); returns spec or None"""
    files, dirs = _files(t), _dirs(t)
    kinds = ["edit", "edit", "mkfile", "mkdir", "move", "move"]
    if allow_rm:
        kinds.append("rm")
    k = draw(st.sampled_from(kinds))

    def pick(seq):
        # bias toward recently created/moved resources: dependent changes
        if recent:
            cand = [x for x in seq if x in recent]
            if cand and draw(st.integers(0, 2)) > 0:
                return draw(st.sampled_from(cand))
        return draw(st.sampled_from(seq))

    n = counter[0]
    counter[0] += 1
    if k == "edit" and files:
        return ["edit", pick(files), draw(st.sampled_from(EDIT_TEXTS)) + "# e%d\n" % n]
    if k == "mkfile":
        parent = pick([""] + dirs)
        return ["mkfile", parent, "f%d.py" % n]
    if k == "mkdir":
        parent = pick([""] + dirs)
        return ["mkdir", parent, "d%d" % n]
    if k == "move":
        cands = files + dirs
        if cands:
            src = pick(cands)
            parents = [d for d in [""] + dirs if d != src and not d.startswith(src + "/")]
            keep = os.path.basename(src)
            into = [d for d in parents if d != os.path.dirname(src) and not _exists(t, (d + "/" + keep) if d else keep)]
            if into and draw(st.integers(0, 2)) == 0:
                parent = pick(into)
                return ["move", src, (parent + "/" + keep) if parent else keep, "into"]
            parent = pick(parents)
            base = "mv%d" % n + ("" if src + "/" in t else ".py")
            return ["move", src, (parent + "/" + base) if parent else base]
    if k == "rm":
        cands = files + dirs
        if cands:
            return ["rm", pick(cands)]
    if files:
        return ["edit", pick(files), "fallback = %d\n" % n]
    return ["mkfile", "", "f%d.py" % n]


@st.composite
def change_specs(draw, tree, min_leaves=2, max_leaves=7, allow_rm=True, counter=None, max_depth=2, desc="cs"):
    """A ChangeSet spec valid on `tree` (str-valued), with dependent shapes favoured.
    Returns (spec, tree_after)."""
    t = tree_bytes(tree)
    counter = counter if counter is not None else [0]
    recent = set()
    n = draw(st.integers(min_leaves, max_leaves))

    def gen_set(depth, budget, label):
        children = []
        while budget[0] > 0:
            if depth < max_depth and budget[0] >= 2 and draw(st.integers(0, 5)) == 0:
                children.append(gen_set(depth + 1, budget, label + ".n"))
                continue
            leaf = draw(leaf_for(t, counter, allow_rm=allow_rm, recent=recent))
            _apply_leaf(t, leaf)
            for p in touched_paths(leaf):
                recent.add(p)
            children.append(leaf)
            budget[0] -= 1
            if depth > 0 and draw(st.integers(0, 2)) == 0:
                break
        return ["set", label, children]

    spec = gen_set(0, [n], desc)
    return spec, {p: (v.decode("utf-8") if isinstance(v, bytes) else v) for p, v in t.items()}


def dependent_pairs(spec):
    """number of leaf pairs (i<j) where j touches a resource i created/moved/edited, or lives inside it"""
    ls = list(leaves(spec))
    cnt = 0
    for i, a in enumerate(ls):
        pa = touched_paths(a)
        for b in ls[i + 1:]:
            pb = touched_paths(b)
            if b[0] in ("mkfile", "mkdir"):
                pb = pb | {b[1]}
            if b[0] == "move":
                pb = pb | {os.path.dirname(b[2])}
            if any(x == y or x.startswith(y + "/") or y.startswith(x + "/") for x in pa for y in pb if y):
                cnt += 1
    return cnt
