"""G-PROJ: executable multi-module projects with ground-truth bindings.

projects() draws a program model and renders it to {path: text}; while rendering it records for every
identifier token (file, start, end, binding id, role).  Binding ids are assigned when the model
object is created, so the partition of tokens into bindings is known by construction.

The fragment: int-valued, total, deterministic programs; module constants, functions (positional
params, defaulted suffix, nested function closing over a local, `global` writes), classes (optional
project base class, class attribute, __init__ storing self.x, methods reading/writing self.x and
calling self.m()), instances bound by a direct constructor call; every import style between modules
and a package; a deliberately tiny shared identifier pool; decoys in strings, comments and f-strings.
"""
from hypothesis import strategies as st

POOL = ["alpha", "beta", "gamma", "delta", "eps", "zeta", "eta", "theta", "iota", "kappa"]
FRESH = "zz_fresh"


class Ent:
    def __init__(self, kind, name, mod, bid):
        self.kind, self.name, self.mod, self.bid = kind, name, mod, bid
        self.order = 0


class Mod:
    def __init__(self, name, path, package=None):
        self.name, self.path, self.package = name, path, package
        self.ents = []
        self.used = set()  # names bound at module level
        self.imports = []  # rendered import records, in order
        self.access = {}  # id(ent) -> access path pieces
        self.modstyle = {}  # target mod name -> (style, local name pieces)
        self.body = []  # module-level statements (IR)
        self.bid = "mod:" + name
        self.pending_from_future = False


class W:
    """text writer that records identifier tokens"""

    def __init__(self, path, table):
        self.path, self.table = path, table
        self.parts = []
        self.pos = 0
        self.line = 1

    def w(self, text):
        self.parts.append(text)
        self.pos += len(text)
        self.line += text.count("\n")
        return self

    def n(self, name, bid, role="use"):
        if bid is not None:
            self.table.append([self.path, self.pos, self.pos + len(name), bid, role, self.line])
        return self.w(name)

    def text(self):
        return "".join(self.parts)


class Gen:
    def __init__(self, draw, profile):
        self.draw = draw
        self.profile = profile
        self.table = []
        self.classes = {}  # bid -> info
        self.counter = 0
        self.order = 0
        self.subclass_writes = set()
        self.flags = set(draw(st.sets(st.sampled_from(PFLAGS), max_size=len(PFLAGS))))

    # ---- draw helpers
    def i(self, a, b):
        return self.draw(st.integers(a, b))

    def b(self, num=1, den=2):
        return self.draw(st.integers(0, den - 1)) < num

    def c(self, seq):
        return self.draw(st.sampled_from(list(seq)))

    def flag(self, f):
        return f in self.flags

    def bid(self, kind, *parts):
        self.counter += 1
        b = "%s:%s#%d" % (kind, ".".join(parts), self.counter)
        return b

    def pick_name(self, avoid):
        cands = [n for n in POOL if n not in avoid]
        if cands:
            return self.c(cands)
        self.counter += 1
        return "n%d" % self.counter

    # ------------------------------------------------------------------ model construction

    def build(self):
        mods = []
        nflat = self.i(1, 3)
        for k in range(nflat):
            mods.append(Mod("m%d" % k, "m%d.py" % k))
        pkg = None
        if self.flag("package"):
            pkg = Mod("pkg", "pkg/__init__.py")
            pkg.is_pkg_init = True
            subs = [Mod("pkg.s%d" % k, "pkg/s%d.py" % k, package="pkg") for k in range(self.i(1, 2))]
            pos = self.i(0, len(mods))
            mods[pos:pos] = subs + [pkg]
            pkg.package = "pkg"
        main = Mod("main", "main.py")
        self.mods = mods + [main]
        self.main = main
        for m in mods:
            self.fill_module(m)
        self.fill_main(main)
        files = {}
        for m in self.mods:
            files[m.path] = self.render_module(m)
        for m in self.mods[:-1]:
            self.classes[m.bid] = {"kind": "package" if getattr(m, "is_pkg_init", False) else "module", "name": m.name.split(".")[-1], "file": m.path, "modname": m.name}
        return files

    def visible_ents(self, m):
        """entities of modules generated before m (and m's own, already created ones)"""
        out = []
        for other in self.mods:
            if other is m:
                break
            if getattr(m, "is_pkg_init", False) and other.package == "pkg":
                continue  # keep pkg/__init__ free of imports of its own submodules (import cycles)
            out.extend(other.ents)
        return out

    def new_ent(self, m, kind):
        name = self.pick_name(m.used)
        m.used.add(name)
        e = Ent(kind, name, m, self.bid({"const": "g", "func": "g", "class": "g", "inst": "g"}[kind], m.name, name))
        self.order += 1
        e.order = self.order
        m.ents.append(e)
        self.classes[e.bid] = {"kind": kind, "name": name, "file": m.path}
        return e

    def fill_module(self, m):
        nconst = self.i(0, 2)
        for _ in range(nconst):
            e = self.new_ent(m, "const")
            e.value = self.i(1, 9)
            e.mutable = False
        nfunc = self.i(0, 2)
        ncls = self.i(0, 2) if self.flag("classes") else 0
        if nconst + nfunc + ncls == 0:
            nfunc = 1
        kinds = ["func"] * nfunc + ["class"] * ncls
        # interleave deterministically by draw
        for kind in kinds:
            e = self.new_ent(m, kind)
            if kind == "func":
                self.make_function(e, m)
            else:
                self.make_class(e, m)
                if self.b(2, 3):
                    inst = self.new_ent(m, "inst")
                    inst.cls = e
                    inst.arg = self.i(1, 5)
                    inst.kw = self.b(1, 3)
        # instances of classes defined in earlier modules
        if self.flag("classes") and self.b(1, 3):
            cands = [e for e in self.visible_ents(m) if e.kind == "class"]
            if cands:
                inst = self.new_ent(m, "inst")
                inst.cls = self.c(cands)
                inst.arg = self.i(1, 5)
                inst.kw = self.b(1, 3)
        # decoys
        m.decoys = [self.c(POOL) for _ in range(self.i(0, 2))] if self.flag("decoys") else []

    # ---- functions

    def make_function(self, e, m, method_of=None, depth=0):
        e.params = []
        e.method_of = method_of
        e.depth = depth
        e.locals = {}  # name -> bid (params + assigned locals)
        e.assigned = []  # local names that hold a value at the current point
        e.avoid = set()
        e.compvars = set()
        nparams = self.i(0, 3)
        ndef = self.i(0, nparams) if self.b(1, 2) else 0
        for k in range(nparams):
            name = self.pick_name(set(e.locals))
            pb = self.bid("l", m.name, e.name, name)
            self.classes[pb] = {"kind": "param", "name": name, "file": m.path}
            default = self.i(1, 9) if k >= nparams - ndef else None
            e.params.append((name, pb, default))
            e.locals[name] = pb
            e.assigned.append(name)
        if method_of is not None:
            sb = self.bid("l", m.name, e.name, "self")
            self.classes[sb] = {"kind": "param", "name": "self", "file": m.path}
            e.self_bid = sb
        e.body = []
        e.nested = []
        e.globals_declared = []
        e.m = m
        nst = self.i(1, 4)
        for _ in range(nst):
            st_ = self.make_stmt(e, m)
            if st_:
                e.body.append(st_)
        e.ret = self.expr(e, m, 2)

    def local_target(self, f, m):
        """a local to assign: existing or new"""
        if f.assigned and self.b(1, 2):
            cands = [n for n in f.assigned if n in f.locals and not any(n == p[0] for p in f.params) or True]
            return self.c(f.assigned)
        name = self.pick_name(set(f.locals) | f.avoid)
        if name not in f.locals:
            lb = self.bid("l", m.name, f.name, name)
            self.classes[lb] = {"kind": "local", "name": name, "file": m.path}
            f.locals[name] = lb
        return name

    def make_stmt(self, f, m):
        r = self.i(0, 11)
        if r <= 3:
            val = self.expr(f, m, 2)
            t = self.local_target(f, m)
            if t not in f.assigned:
                f.assigned.append(t)
            return ("assign", t, val)
        if r == 4 and f.assigned:
            t = self.c(f.assigned)
            return ("aug", t, self.c(["+", "-", "*"]), self.expr(f, m, 1))
        if r == 5:
            cond = ("cmp", self.c(["<", ">", "==", "!="]), self.expr(f, m, 1), self.expr(f, m, 1))
            v1, v2 = self.expr(f, m, 1), self.expr(f, m, 1)
            t = self.local_target(f, m)
            if t not in f.assigned:
                f.assigned.append(t)
            return ("if", cond, [("assign", t, v1)], [("assign", t, v2)])
        if r == 6 and f.assigned:
            t = self.c(f.assigned)
            it = self.pick_name(set(f.locals) | f.avoid)
            if it not in f.locals:
                lb = self.bid("l", m.name, f.name, it)
                self.classes[lb] = {"kind": "local", "name": it, "file": m.path}
                f.locals[it] = lb
            body = [("aug", t, "+", ("local", it))]
            if it not in f.assigned:
                f.assigned.append(it)
            return ("for", it, self.i(1, 3), body)
        if r == 7 and self.flag("comprehensions"):
            t = self.local_target(f, m)
            comps = [self.make_comp(f, m)]
            if self.flag("two_comps_one_line") and self.b(1, 2):
                comps.append(self.make_comp(f, m, same_var=comps[0][1]))
            if t not in f.assigned:
                f.assigned.append(t)
            return ("assign", t, ("sumcomps", comps))
        if r == 8 and self.flag("nested") and f.depth == 0 and f.assigned:
            # nested function closing over a local of f
            captured = self.c(f.assigned)
            name = self.pick_name(set(f.locals) | f.avoid)
            nb = self.bid("l", m.name, f.name, name)
            self.classes[nb] = {"kind": "local", "name": name, "file": m.path}
            f.locals[name] = nb
            inner = Ent("func", name, m, nb)
            inner.order = 0
            pname = self.pick_name({captured, name})
            pb = self.bid("l", m.name, f.name + "." + name, pname)
            self.classes[pb] = {"kind": "param", "name": pname, "file": m.path}
            inner.params = [(pname, pb, None)]
            inner.captured = (captured, f.locals[captured])
            arg = self.expr(f, m, 1)
            t = self.local_target(f, m)
            if t == name:
                t = captured
            if t not in f.assigned:
                f.assigned.append(t)
            return ("nested", inner, t, arg)
        if r == 9 and self.flag("global_stmt") and f.method_of is None:
            cands = [e for e in m.ents if e.kind == "const" and e.name not in f.locals and e.order < getattr(f, "order", 10 ** 9)]
            if cands:
                g = self.c(cands)
                g.mutable = True
                f.avoid.add(g.name)
                f.globals_declared.append(g)
                others = [e for e in cands if e is not g and e not in f.globals_declared]
                if others and self.b(1, 2):
                    # a second name declared by the same function (it may share the statement: `global g, g2`)
                    g2 = self.c(others)
                    f.avoid.add(g2.name)
                    f.globals_declared.append(g2)
                return ("gassign", g, self.i(1, 5))
        if r == 10 and f.method_of is not None:
            cls = f.method_of
            attr = self.c(cls.all_iattrs())
            if attr not in cls.iattrs:
                self.subclass_writes.add(attr[1])
            return ("selfset", attr, self.c(["=", "+=", "-="]), self.expr(f, m, 1))
        if r == 11 and self.flag("decoys"):
            return ("decoy", self.c(POOL))
        return None

    def make_comp(self, f, m, same_var=None):
        # CPython 3.12 inlines comprehensions (PEP 709): a comprehension variable that is also read as a
        # global elsewhere in the same function makes that read an unbound local - keep them apart
        var = same_var or self.pick_name(set(f.avoid))
        f.compvars.add(var)
        vb = self.bid("l", m.name, f.name, "comp." + var)
        self.classes[vb] = {"kind": "compvar", "name": var, "file": m.path}
        old_avoid = set(f.avoid)
        f.avoid.add(var)
        other = self.expr(f, m, 0, avoid_names={var})
        f.avoid = old_avoid | (f.avoid - {var})
        return ("comp", var, vb, self.c(["*", "+"]), other, self.i(1, 3))

    def expr(self, f, m, depth, avoid_names=()):
        r = self.i(0, 11)
        if depth <= 0:
            r = min(r, 5)
        if r <= 1:
            return ("int", self.i(0, 9))
        if r <= 3 and f is not None:
            cands = [n for n in f.assigned if n not in avoid_names]
            if cands:
                return ("local", self.c(cands))
        if r <= 5:
            e = self.pick_ref(f, m, ("const",), avoid_names)
            if e is not None:
                return ("ent", e)
            return ("int", self.i(0, 9))
        if r <= 7:
            return ("bin", self.c(["+", "-", "*"]), self.expr(f, m, depth - 1, avoid_names), self.expr(f, m, depth - 1, avoid_names))
        if r == 8:
            e = self.pick_ref(f, m, ("func",), avoid_names)
            if e is not None:
                return self.make_call(e, f, m, depth, avoid_names)
        if r == 9:
            e = self.pick_ref(f, m, ("inst",), avoid_names)
            if e is not None:
                cls = e.cls
                if self.b() and cls.all_methods():
                    meth = self.c(cls.all_methods())
                    return ("mcall", e, meth, self.call_args(meth, f, m, depth, avoid_names))
                attrs = cls.all_iattrs() + cls.all_cattrs()
                return ("iattr", e, self.c(attrs))
        if r == 10 and f is not None and f.method_of is not None:
            cls = f.method_of
            if self.b() and cls.all_iattrs():
                return ("selfattr", self.c(cls.all_iattrs() + cls.all_cattrs()))
            prior = [mt for mt in cls.all_methods() if mt.order < f.order]
            if prior:
                meth = self.c(prior)
                return ("selfcall", meth, self.call_args(meth, f, m, depth, avoid_names))
        if r == 11 and self.flag("decoys") and self.b(1, 2):
            if self.b():
                return ("flen", self.c(POOL), self.expr(f, m, 0, avoid_names))
            return ("slen", self.c(POOL), self.c(POOL))
        if r == 11:
            return ("cond", ("cmp", self.c(["<", ">="]), self.expr(f, m, 0, avoid_names), self.expr(f, m, 0, avoid_names)), self.expr(f, m, 0, avoid_names), self.expr(f, m, 0, avoid_names))
        return ("int", self.i(0, 9))

    def pick_ref(self, f, m, kinds, avoid_names):
        """an entity of the wanted kind that can be referenced from (m, f) without being shadowed"""
        order_limit = f.order if (f is not None and getattr(f, "order", 0)) else 10 ** 9
        cands = []
        for e in self.visible_ents(m) + list(m.ents):
            if e.kind not in kinds:
                continue
            if e.mod is m and e.order >= order_limit and f is not None and f.depth == 0 and f.method_of is None and e.kind == "func":
                continue
            if e.mod is m and e.kind in ("func",) and f is not None and e is f:
                continue
            if e.mod is m and f is None and e.order > self.order:
                continue
            cands.append(e)
        # only functions defined earlier (no recursion): enforce by global creation order
        if f is not None:
            cands = [e for e in cands if e.kind != "func" or e.order < f_root_order(f)]
            cands = [e for e in cands if e.kind != "inst" or e.order < f_root_order(f)]
        if not cands:
            return None
        e = self.c(cands)
        shadow = set(avoid_names)
        if f is not None:
            shadow |= set(f.locals) | {p[0] for p in f.params} | f.compvars
        # make sure an access path exists whose FIRST name is not shadowed; record planned shadowing
        first = self.access_first_name(m, e)
        if first in shadow:
            return None
        if f is not None:
            f.avoid.add(first)
        return e

    def make_call(self, e, f, m, depth, avoid_names):
        return ("call", e, self.call_args(e, f, m, depth, avoid_names))

    def call_args(self, fn, f, m, depth, avoid_names):
        """(positional exprs, [(param name, param bid, expr)]) respecting defaults"""
        pos, kws = [], []
        params = fn.params
        style = self.c(["pos", "pos", "kw", "mixed"])
        npos = len(params) if style == "pos" else (0 if style == "kw" else self.i(0, len(params)))
        for k, (pname, pb, default) in enumerate(params):
            if default is not None and self.b(1, 2):
                # omit this and all later defaulted positionals; later ones can still be given by keyword
                npos = min(npos, k)
                continue
            val = self.expr(f, m, max(0, depth - 1), avoid_names)
            if self.flag("cmp_args") and self.b(1, 4) and val[0] in ("local", "ent"):
                # a comparison written directly as an argument: `f(count == 0)` is not a keyword argument
                val = ("cmp", "==", val, self.expr(f, m, 0, avoid_names))
            if k < npos:
                pos.append(val)
            else:
                kws.append((pname, pb, val))
        return (pos, kws)

    # ---- classes

    def make_class(self, e, m):
        e.base = None
        cands = [c for c in self.visible_ents(m) + m.ents if c.kind == "class" and c is not e]
        if cands and self.flag("inheritance") and self.b(1, 2):
            e.base = self.c(cands)
        taken = set()
        header = {e.name: e.bid}
        if e.base is not None:
            first = self.access(m, e.base)[0]
            header[first[0]] = first[1]
            e.header_path_bids = [piece[1] for piece in self.access(m, e.base)]
        e.header = header
        if not self.flag("header_collision"):
            taken |= set(header)
        b = e.base
        while b is not None:
            taken |= {a[0] for a in b.cattrs} | {a[0] for a in b.iattrs} | {mt.name for mt in b.methods}
            b = b.base
        e.cattrs, e.iattrs, e.methods = [], [], []
        for _ in range(self.i(0, 1)):
            n = self.pick_name(taken)
            taken.add(n)
            ab = self.bid("a", m.name, e.name, n)
            self.classes[ab] = {"kind": "cattr", "name": n, "file": m.path}
            e.cattrs.append((n, ab, self.i(1, 9)))
        for _ in range(self.i(1, 2)):
            n = self.pick_name(taken)
            taken.add(n)
            ab = self.bid("a", m.name, e.name, n)
            self.classes[ab] = {"kind": "iattr", "name": n, "file": m.path}
            e.iattrs.append((n, ab))
        e.all_iattrs = lambda e=e: _inherited(e, "iattrs")
        e.all_cattrs = lambda e=e: _inherited(e, "cattrs")
        e.all_methods = lambda e=e: _inherited(e, "methods")
        # __init__ parameter
        pname = self.pick_name({self.access_first_name(m, e.base)} if e.base is not None else set())
        pb = self.bid("l", m.name, e.name + ".__init__", pname)
        self.classes[pb] = {"kind": "param", "name": pname, "file": m.path}
        e.init_param = (pname, pb)
        sb = self.bid("l", m.name, e.name + ".__init__", "self")
        self.classes[sb] = {"kind": "param", "name": "self", "file": m.path}
        e.init_self = sb
        e.params = [(pname, pb, None)]
        for _ in range(self.i(0, 2)):
            n = self.pick_name(taken)
            taken.add(n)
            mb = self.bid("m", m.name, e.name, n)
            self.classes[mb] = {"kind": "method", "name": n, "file": m.path}
            meth = Ent("method", n, m, mb)
            self.order += 1
            meth.order = self.order
            e.methods.append(meth)
            self.make_function(meth, m, method_of=e)

    # ---- import / access resolution

    def access_first_name(self, m, e):
        return self.access(m, e)[0][0]

    def access(self, m, e):
        """list of (name, bid, role) pieces forming a dotted access to entity e from module m"""
        if e.mod is m:
            return [(e.name, e.bid, "use")]
        key = id(e)
        if key in m.access:
            return m.access[key]
        d = e.mod
        style = m.modstyle.get(d.name)
        if style is None:
            style = self.choose_style(m, d)
            m.modstyle[d.name] = style
        kind = style[0]
        if kind == "module":
            path = list(style[1]) + [(e.name, e.bid, "use")]
        else:  # from-import of the entity itself
            if e.name not in m.used and self.b(2, 3):
                local = e.name
                m.used.add(local)
                m.imports.append(("from_name", d, style[1], e, None))
                path = [(e.name, e.bid, "use")]
            else:
                al = self.pick_name(m.used | {e.name})
                m.used.add(al)
                ab = self.bid("alias", m.name, al)
                self.classes[ab] = {"kind": "alias", "name": al, "file": m.path, "of": e.bid}
                m.imports.append(("from_name", d, style[1], e, (al, ab)))
                path = [(al, ab, "use")]
        m.access[key] = path
        return path

    def choose_style(self, m, d):
        """how module m reaches module d; returns ("module", access pieces) or ("from", from-clause spelling)"""
        inside_pkg = m.package == "pkg" and not getattr(m, "is_pkg_init", False)
        in_pkg_target = d.package == "pkg"
        sub = d.name.split(".")[-1]
        if not in_pkg_target:
            r = self.c(["import", "import_as", "from", "from"])
            if r == "import":
                m.imports.append(("import", d, None))
                return ("module", [(d.name, d.bid, "use")])
            if r == "import_as":
                al, ab = self.new_alias(m, d)
                m.imports.append(("import", d, (al, ab)))
                return ("module", [(al, ab, "use")])
            return ("from", ("abs", d))
        if d.name == "pkg":
            r = self.c(["import", "import_as", "from"])
            if inside_pkg and self.flag("relative"):
                return ("from", ("rel_pkg", d))
            if r == "import":
                m.imports.append(("import", d, None))
                return ("module", [("pkg", d.bid, "use")])
            if r == "import_as":
                al, ab = self.new_alias(m, d)
                m.imports.append(("import", d, (al, ab)))
                return ("module", [(al, ab, "use")])
            return ("from", ("abs", d))
        # d is pkg.sK
        opts = ["import_dotted", "import_dotted_as", "from_pkg_import_sub", "from_pkg_import_sub_as", "from_sub", "from_sub"]
        if inside_pkg and self.flag("relative"):
            opts = ["rel_from_dot_import_sub", "rel_from_sub", "rel_from_sub"] + opts[:2]
        r = self.c(opts)
        pkgmod = [x for x in self.mods if x.name == "pkg"][0]
        if r == "import_dotted":
            m.imports.append(("import", d, None))
            return ("module", [("pkg", pkgmod.bid, "use"), (sub, d.bid, "use")])
        if r == "import_dotted_as":
            al, ab = self.new_alias(m, d)
            m.imports.append(("import", d, (al, ab)))
            return ("module", [(al, ab, "use")])
        if r in ("from_pkg_import_sub", "rel_from_dot_import_sub"):
            if sub in m.used:
                al, ab = self.new_alias(m, d)
                m.imports.append(("from_mod", d, (al, ab), r.startswith("rel")))
                return ("module", [(al, ab, "use")])
            m.used.add(sub)
            m.imports.append(("from_mod", d, None, r.startswith("rel")))
            return ("module", [(sub, d.bid, "use")])
        if r == "from_pkg_import_sub_as":
            al, ab = self.new_alias(m, d)
            m.imports.append(("from_mod", d, (al, ab), False))
            return ("module", [(al, ab, "use")])
        if r == "rel_from_sub":
            return ("from", ("rel", d))
        return ("from", ("abs", d))

    def new_alias(self, m, d):
        al = self.pick_name(m.used | {d.name.split(".")[-1]})
        m.used.add(al)
        ab = self.bid("alias", m.name, al)
        self.classes[ab] = {"kind": "modalias", "name": al, "file": m.path, "of": d.bid}
        return al, ab

    # ---- main

    def fill_main(self, main):
        stmts = []
        for m in self.mods[:-1]:
            for e in m.ents:
                if e.kind == "const":
                    stmts.append(("print", [("ent", e)]))
                elif e.kind == "func":
                    for _ in range(self.i(1, 2)):
                        stmts.append(("print", [("call", e, self.call_args(e, None, main, 1, ()))]))
                elif e.kind == "inst":
                    cls = e.cls
                    for a in cls.all_iattrs() + cls.all_cattrs():
                        stmts.append(("print", [("iattr", e, a)]))
                    for mt in cls.all_methods():
                        stmts.append(("print", [("mcall", e, mt, self.call_args(mt, None, main, 1, ()))]))
                    for a in cls.all_iattrs()[:1]:
                        stmts.append(("print", [("iattr", e, a)]))
                elif e.kind == "class":
                    if self.b(1, 2):
                        stmts.append(("print", [("iattr_of_new", e, self.i(1, 4))]))
            for e in m.ents:
                if e.kind == "const" and getattr(e, "mutable", False):
                    stmts.append(("print", [("ent", e)]))
        main.body = stmts
        main.decoys = [self.c(POOL)] if self.flag("decoys") else []

    # ------------------------------------------------------------------ rendering

    def render_module(self, m):
        w = W(m.path, self.table)
        body = W(m.path, [])  # rendered first into a side buffer to discover the imports; then re-rendered
        # pass 1: discover imports by rendering into a throw-away writer
        saved_table = self.table
        self.table = []
        tmp = W(m.path, self.table)
        self.render_body(tmp, m)
        self.table = saved_table
        # pass 2
        w = W(m.path, self.table)
        if getattr(m, "decoys", None):
            w.w('"""module about ' + " ".join(m.decoys) + '"""\n')
        self.render_imports(w, m)
        self.render_body(w, m)
        return w.text()

    def render_imports(self, w, m):
        pkgmod = [x for x in self.mods if x.name == "pkg"]
        pkgbid = pkgmod[0].bid if pkgmod else None
        for rec in m.imports:
            kind = rec[0]
            if kind == "import":
                d, alias = rec[1], rec[2]
                w.w("import ")
                self.write_modname(w, d, pkgbid)
                if alias:
                    w.w(" as ").n(alias[0], alias[1], "alias_def")
                w.w("\n")
            elif kind == "from_mod":
                d, alias, rel = rec[1], rec[2], rec[3]
                w.w("from ")
                if rel:
                    w.w(".")
                else:
                    w.n("pkg", pkgbid, "import")
                w.w(" import ").n(d.name.split(".")[-1], d.bid, "import")
                if alias:
                    w.w(" as ").n(alias[0], alias[1], "alias_def")
                w.w("\n")
            elif kind == "from_name":
                d, spelling, e, alias = rec[1], rec[2], rec[3], rec[4]
                w.w("from ")
                how = spelling[0]
                if how == "abs":
                    self.write_modname(w, d, pkgbid)
                elif how == "rel":
                    w.w(".").n(d.name.split(".")[-1], d.bid, "import")
                elif how == "rel_pkg":
                    w.w(".")
                w.w(" import ").n(e.name, e.bid, "import")
                if alias:
                    w.w(" as ").n(alias[0], alias[1], "alias_def")
                w.w("\n")

    def write_modname(self, w, d, pkgbid):
        parts = d.name.split(".")
        if len(parts) == 2:
            w.n("pkg", pkgbid, "import").w(".").n(parts[1], d.bid, "import")
        else:
            w.n(d.name, d.bid, "import")

    def render_body(self, w, m):
        for e in m.ents:
            if e.kind == "const":
                w.n(e.name, e.bid, "def").w(" = %d\n" % e.value)
            elif e.kind == "func":
                self.render_function(w, m, e, "")
            elif e.kind == "class":
                self.render_class(w, m, e)
            elif e.kind == "inst":
                w.n(e.name, e.bid, "def").w(" = ")
                self.render_access(w, m, e.cls)
                if getattr(e, "kw", False):
                    # constructor called by keyword: the keyword is an occurrence of __init__'s parameter
                    w.w("(").n(e.cls.init_param[0], e.cls.init_param[1], "kw").w("=%d)\n" % e.arg)
                else:
                    w.w("(%d)\n" % e.arg)
        if getattr(m, "decoys", None):
            for d in m.decoys:
                w.w("# %s is mentioned here\n" % d)
        for st_ in m.body:
            self.render_stmt(w, m, None, st_, "")

    def render_access(self, w, m, e):
        pieces = self.access(m, e)
        for k, (name, bid, role) in enumerate(pieces):
            if k:
                w.w(".")
            w.n(name, bid, role)

    def render_function(self, w, m, f, indent):
        w.w(indent + "def ").n(f.name, f.bid, "def").w("(")
        first = True
        if f.method_of is not None:
            w.n("self", f.self_bid, "def")
            first = False
        for (pname, pb, default) in f.params:
            if not first:
                w.w(", ")
            first = False
            w.n(pname, pb, "def")
            if default is not None:
                w.w("=%d" % default)
        w.w("):\n")
        inner = indent + "    "
        if self.flag("docstrings") and self.b(1, 2):
            # a multi-line docstring that mentions identifiers of the pool and contains two adjacent quote characters
            names = [pn for (pn, _pb, _d) in f.params][:2] + [self.c(POOL)]
            w.w(inner + '"""Uses %s; an empty string is written "" here.\n' % ", ".join(names))
            w.w(inner + "%s = %s + 1 (not code)\n" % (names[-1], names[0] if names else "x"))
            w.w(inner + '"""\n')
        if len(f.globals_declared) > 1 and self.b(1, 2):
            # one statement declaring several names
            w.w(inner + "global ")
            for k_, g in enumerate(f.globals_declared):
                if k_:
                    w.w(", ")
                w.n(g.name, g.bid, "use")
            w.w("\n")
        else:
            for g in f.globals_declared:
                w.w(inner + "global ").n(g.name, g.bid, "use").w("\n")
        for st_ in f.body:
            self.render_stmt(w, m, f, st_, inner)
        w.w(inner + "return ")
        self.render_expr(w, m, f, f.ret)
        w.w("\n")

    def render_class(self, w, m, c):
        w.w("class ").n(c.name, c.bid, "def")
        if c.base is not None:
            w.w("(")
            self.render_access(w, m, c.base)
            w.w(")")
        w.w(":\n")
        for (n, ab, val) in c.cattrs:
            w.w("    ").n(n, ab, "def").w(" = %d\n" % val)
        pname, pb = c.init_param
        w.w("    def __init__(").n("self", c.init_self, "def").w(", ").n(pname, pb, "def").w("):\n")
        if c.base is not None:
            w.w("        ")
            self.render_access(w, m, c.base)
            w.w(".__init__(").n("self", c.init_self, "use").w(", ").n(pname, pb, "use").w(")\n")
        for k, (n, ab) in enumerate(c.iattrs):
            w.w("        ").n("self", c.init_self, "use").w(".").n(n, ab, "def").w(" = ").n(pname, pb, "use").w(" + %d\n" % k)
        for meth in c.methods:
            self.render_function(w, m, meth, "    ")
        if self.flag("dunder_call"):
            # instances are callable too: keyword arguments of the CONSTRUCTOR must still be resolved against __init__
            w.w("    def __call__(self, w_arg=0):\n        return w_arg\n")

    def render_stmt(self, w, m, f, s, indent):
        k = s[0]
        if k == "assign":
            w.w(indent).n(s[1], f.locals[s[1]], "def").w(" = ")
            if self.flag("hanging_layout") and self.b(1, 3):
                # a parenthesised value whose continuation line is indented LESS than the enclosing def
                w.w("(\n" + self.c(["", "  ", "      "]))
                self.render_expr(w, m, f, s[2])
                w.w(")\n")
            else:
                self.render_expr(w, m, f, s[2])
                w.w("\n")
        elif k == "aug":
            w.w(indent).n(s[1], f.locals[s[1]], "use").w(" %s= " % s[2])
            self.render_expr(w, m, f, s[3])
            w.w("\n")
        elif k == "if":
            w.w(indent + "if ")
            self.render_expr(w, m, f, s[1])
            w.w(":\n")
            for x in s[2]:
                self.render_stmt(w, m, f, x, indent + "    ")
            w.w(indent + "else:\n")
            for x in s[3]:
                self.render_stmt(w, m, f, x, indent + "    ")
        elif k == "for":
            w.w(indent + "for ").n(s[1], f.locals[s[1]], "def").w(" in range(%d):\n" % s[2])
            for x in s[3]:
                self.render_stmt(w, m, f, x, indent + "    ")
        elif k == "nested":
            inner, target, arg = s[1], s[2], s[3]
            pname, pb, _ = inner.params[0]
            cap, capb = inner.captured
            w.w(indent + "def ").n(inner.name, inner.bid, "def").w("(").n(pname, pb, "def").w("):\n")
            w.w(indent + "    return ").n(pname, pb, "use").w(" + ").n(cap, capb, "use").w("\n")
            w.w(indent).n(target, f.locals[target], "def").w(" = ").n(inner.name, inner.bid, "use").w("(")
            self.render_expr(w, m, f, arg)
            w.w(")\n")
        elif k == "gassign":
            g = s[1]
            w.w(indent).n(g.name, g.bid, "use").w(" = ").n(g.name, g.bid, "use").w(" + %d\n" % s[2])
        elif k == "selfset":
            n, ab = s[1]
            w.w(indent).n("self", f.self_bid, "use").w(".").n(n, ab, "use").w(" %s " % s[2])
            self.render_expr(w, m, f, s[3])
            w.w("\n")
        elif k == "decoy":
            w.w(indent + "# %s = %s + 1\n" % (s[1], s[1]))
        elif k == "print":
            w.w(indent + "print(")
            hang = f is not None and self.flag("hanging_layout") and self.b(1, 2)
            for i, x in enumerate(s[1]):
                if i:
                    w.w(", ")
                if hang:
                    # continuation lines indented LESS than the enclosing def: layout inside brackets is free
                    w.w("\n" + self.c(["", "  ", "      "]))
                self.render_expr(w, m, f, x)
            if m.decoys and self.main is m and False:
                pass
            w.w(")\n")

    def render_args(self, w, m, f, args):
        pos, kws = args
        first = True
        for x in pos:
            if not first:
                w.w(", ")
            first = False
            self.render_expr(w, m, f, x)
        for (pname, pb, x) in kws:
            if not first:
                w.w(", ")
            first = False
            w.n(pname, pb, "kw").w("=")
            self.render_expr(w, m, f, x)

    def render_expr(self, w, m, f, e):
        k = e[0]
        if k == "int":
            w.w(str(e[1]))
        elif k == "local":
            w.n(e[1], f.locals[e[1]], "use")
        elif k == "ent":
            self.render_access(w, m, e[1])
        elif k == "bin":
            w.w("(")
            self.render_expr(w, m, f, e[2])
            w.w(" %s " % e[1])
            self.render_expr(w, m, f, e[3])
            w.w(")")
        elif k == "cmp":
            self.render_expr(w, m, f, e[2])
            w.w(" %s " % e[1])
            self.render_expr(w, m, f, e[3])
        elif k == "cond":
            w.w("(")
            self.render_expr(w, m, f, e[2])
            w.w(" if ")
            self.render_expr(w, m, f, e[1])
            w.w(" else ")
            self.render_expr(w, m, f, e[3])
            w.w(")")
        elif k == "call":
            self.render_access(w, m, e[1])
            w.w("(")
            self.render_args(w, m, f, e[2])
            w.w(")")
        elif k == "mcall":
            self.render_access(w, m, e[1])
            w.w(".").n(e[2].name, e[2].bid, "use").w("(")
            self.render_args(w, m, f, e[3])
            w.w(")")
        elif k == "iattr":
            self.render_access(w, m, e[1])
            w.w(".").n(e[2][0], e[2][1], "use")
        elif k == "iattr_of_new":
            cls = e[1]
            a = cls.all_iattrs()[0]
            self.render_access(w, m, cls)
            w.w("(%d)." % e[2]).n(a[0], a[1], "use")
        elif k == "selfattr":
            w.n("self", f.self_bid, "use").w(".").n(e[1][0], e[1][1], "use")
        elif k == "selfcall":
            w.n("self", f.self_bid, "use").w(".").n(e[1].name, e[1].bid, "use").w("(")
            self.render_args(w, m, f, e[2])
            w.w(")")
        elif k == "flen":
            w.w('len(f"%s {' % e[1])
            self.render_expr(w, m, f, e[2])
            w.w('} {{%s}}")' % e[1])
        elif k == "slen":
            w.w("len('%s.%s = 1')" % (e[1], e[2]))
        elif k == "sumcomps":
            for i, comp in enumerate(e[1]):
                if i:
                    w.w(" + ")
                _, var, vb, op, other, n = comp
                w.w("sum([").n(var, vb, "use").w(" %s " % op)
                self.render_expr(w, m, f, other)
                w.w(" for ").n(var, vb, "def").w(" in range(%d)])" % n)


def f_root_order(f):
    return getattr(f, "order", 0) or 10 ** 9


def _inherited(cls, field):
    out = []
    chain = []
    c = cls
    while c is not None:
        chain.append(c)
        c = c.base
    for c in reversed(chain):
        out.extend(getattr(c, field))
    return out


PFLAGS = ["header_collision", "package", "classes", "inheritance", "relative", "comprehensions", "two_comps_one_line", "nested", "global_stmt", "decoys", "dunder_call", "hanging_layout", "docstrings", "cmp_args"]


@st.composite
def projects(draw, profile="general"):
    g = Gen(draw, profile)
    files = g.build()
    hazards = set()
    for m in g.mods:
        for e in m.ents:
            if e.kind == "class":
                members = [(a[0], a[1]) for a in e.all_cattrs()] + [(a[0], a[1]) for a in e.all_iattrs()] + [(mt.name, mt.bid) for mt in e.all_methods()]
                for (n, b) in members:
                    if n in e.header:
                        hazards.add(b)
                        hazards.add(e.header[n])
                        if n != e.name:
                            hazards.update(getattr(e, "header_path_bids", []))
    return {
        "header_collision_bids": sorted(hazards),
        "subclass_write_bids": sorted(g.subclass_writes),
        "files": files,
        "tokens": g.table,
        "classes": g.classes,
        "entry": "main.py",
        "flags": sorted(g.flags),
    }
