"""R-RUN: run a project given as {path: source text} in-process.

Result = (stdout text, exception class name or ""), with a deterministic line-event budget so that
a non-terminating result is "behaviour differs", never a clock-dependent verdict.
"""
import contextlib
import importlib.abc
import importlib.util
import io
import sys


LAST_TB = ""


class BudgetExceeded(BaseException):
    pass


class DictFinder(importlib.abc.MetaPathFinder, importlib.abc.Loader):
    def __init__(self, files):
        self.files = files

    def _locate(self, fullname):
        base = fullname.replace(".", "/")
        if base + "/__init__.py" in self.files:
            return base + "/__init__.py", True
        if base + ".py" in self.files:
            return base + ".py", False
        if any(p.startswith(base + "/") for p in self.files):
            return None, True  # namespace-like folder
        return None, None

    def find_spec(self, fullname, path=None, target=None):
        p, ispkg = self._locate(fullname)
        if ispkg is None:
            return None
        return importlib.util.spec_from_loader(fullname, self, origin=p or fullname, is_package=ispkg)

    def create_module(self, spec):
        return None

    def exec_module(self, module):
        p, ispkg = self._locate(module.__name__)
        if p is None:
            return
        code = compile(self.files[p], p, "exec", dont_inherit=True)
        exec(code, module.__dict__)


def run(files, entry="main.py", budget=200000, profile=None, collect_lines=None):
    """returns (stdout, error_class_name).  `profile`, if given, is installed with sys.setprofile."""
    finder = DictFinder(files)
    before = set(sys.modules)
    sys.meta_path.insert(0, finder)
    out = io.StringIO()
    err = ""
    count = [0]

    def tracer(frame, event, arg):
        if event == "line":
            count[0] += 1
            if collect_lines is not None and frame.f_code.co_filename == entry:
                collect_lines.add(frame.f_lineno)
            if count[0] > budget:
                raise BudgetExceeded()
        return tracer

    old_trace = sys.gettrace()
    try:
        with contextlib.redirect_stdout(out), contextlib.redirect_stderr(io.StringIO()):
            try:
                g = {"__name__": "__main__", "__file__": entry}
                code = compile(files[entry], entry, "exec", dont_inherit=True)
                sys.settrace(tracer)
                if profile is not None:
                    sys.setprofile(profile)
                try:
                    exec(code, g)
                finally:
                    sys.setprofile(None)
                    sys.settrace(old_trace)
            except BudgetExceeded:
                err = "BudgetExceeded"
            except BaseException as e:  # noqa: BLE001 - the program under test may raise anything
                err = type(e).__name__
                global LAST_TB
                import traceback

                LAST_TB = "".join(traceback.format_exception(type(e), e, e.__traceback__)[-3:])
    finally:
        sys.settrace(old_trace)
        if finder in sys.meta_path:
            sys.meta_path.remove(finder)
        for m in set(sys.modules) - before:
            del sys.modules[m]
    return out.getvalue(), err


def import_each(files, budget=200000, only=None):
    """import every module of the project on its own (fresh interpreter state per module);
    returns {module path: error class or ''}"""
    res = {}
    for p in sorted(files):
        if not p.endswith(".py") or (only is not None and p not in only):
            continue
        mod = p[:-3].replace("/", ".")
        if mod.endswith(".__init__"):
            mod = mod[: -len(".__init__")]
        stub = {"__entry__.py": "import %s\n" % mod}
        stub.update(files)
        res[p] = run(stub, "__entry__.py", budget)[1]
    return res


def compiles(files):
    bad = []
    for p, s in sorted(files.items()):
        if p.endswith(".py"):
            try:
                compile(s, p, "exec", dont_inherit=True)
            except (SyntaxError, ValueError) as e:
                bad.append("%s: %s" % (p, e))
    return bad
