"""G-SRC: syntactically valid Python source text with hostile layout.

Two constructive sources:
  * grammar(): a concrete-syntax generator that emits TEXT (not ast.unparse output) with layout choices
    drawn per token boundary;
  * soup(): top-level statements sliced, with their original comments and layout, out of the
    interpreter's own Lib/**/*.py and rope's sources, recombined into modules.
features(src) labels any text with the hazards it contains (computed from tokenize + ast).
"""
import ast
import glob
import io
import keyword
import os
import sysconfig
import tokenize
import unicodedata

from hypothesis import strategies as st

# --------------------------------------------------------------------------- draw helper


class G:
    def __init__(self, draw, profile="general", budget=60):
        self.draw = draw
        self.profile = profile
        self.budget = budget  # remaining node budget; keeps texts small
        self.fn_depth = 0
        self.in_async = False
        self.in_loop = False
        self.in_def = False
        self.in_class_body = False
        self.in_comp = 0
        self.in_fstring = 0
        self.in_except_star = False
        self.locals_stack = []  # names bound in enclosing functions (for nonlocal)
        self.counter = 0
        self.flags = set(draw(st.sets(st.sampled_from(FLAGS), max_size=len(FLAGS))))
        if profile == "clean":
            # no construct with a recorded patchedast (C08) defect: used where the annotated tree is only a tool
            self.flags -= {"nfkc_ident", "pep701", "starred", "tuple1", "annotations", "posonly", "kwonly", "pep695", "class_kw", "match", "fstrings", "walrus"}

    def i(self, a, b):
        return self.draw(st.integers(a, b))

    def b(self, p_num=1, p_den=2):
        return self.draw(st.integers(0, p_den - 1)) < p_num

    def c(self, seq):
        return self.draw(st.sampled_from(seq))

    def flag(self, name):
        return name in self.flags

    def fresh(self, prefix="n"):
        self.counter += 1
        return "%s%d" % (prefix, self.counter)

    # ----------------------------------------------------------------- layout

    def ws(self):
        """optional whitespace between tokens"""
        return self.c(["", " ", " ", "  ", "\t"] if self.flag("tabs") else ["", " ", " ", "  "])

    def sp(self):
        """mandatory whitespace"""
        return self.c([" ", " ", "  ", "\t"] if self.flag("tabs") else [" ", " ", "  "])

    def bws(self):
        """whitespace inside brackets: may contain newlines and comments"""
        if self.in_fstring:
            return self.c(["", " "])
        if not self.flag("multiline") or self.b(3, 4):
            return self.ws()
        parts = []
        for _ in range(self.i(1, 2)):
            if self.flag("comments") and self.b(1, 2):
                parts.append(self.ws() + self.comment())
            parts.append("\n" + " " * self.i(0, 8))
        return "".join(parts)

    def comment(self):
        return "#" + self.c(["", " c", " )", " ]", " (", " '", ' "', " if x:", " # nested", " \\", " '''", " é", " def f():", " {", " }"])

    def op(self, text):
        return self.ws() + text + self.ws()

    # ----------------------------------------------------------------- atoms

    def name(self):
        pool = ["a", "b", "c", "x", "y", "foo", "bar_1", "_", "self", "A", "Cls", "__d__"]
        if self.flag("unicode_ident"):
            pool = pool + ["é1", "变量", "ñ"]
        if self.flag("nfkc_ident"):
            pool = pool + ["µ", "ﬁ"]
        if self.flag("softkw_names"):
            pool = pool + ["match", "case", "type", "print", "exec", "unixfrom", "date_from", "_from", "fromage", "importer", "classy", "iffy", "not_", "isx", "lambdax", "ordef", "as_", "xin"]
        return self.c(pool)

    def number(self):
        plain = ["0", "1", "42", "7", "1.5", "2.0", "1e10", "1E-3", "3j", "10"]
        fancy = ["1_000", "0x_FF", "0XdeadBEEF", "0xff", "0o17", "0O7", "0b1_0", "0B11", ".5", "5.", "1_0.0_1e+1_0", ".5J", "1e3j", ".5e3", ".25E-2j", "7.e-1", "0_0", "00", "0xFFFF_FFFF", "1_0j", "1.e5", "0e0"]
        return self.c(plain + fancy if self.flag("fancy_numbers") else plain)

    def string(self, allow_f=True):
        kind = self.c(["s", "s", "s", "b", "f"] if allow_f and self.flag("fstrings") and not self.in_fstring else ["s", "s", "s", "b"])
        if kind == "f":
            return self.fstring()
        if kind == "b":
            prefix = self.c(["b", "B", "br", "Br", "bR", "BR", "rb", "rB", "Rb", "RB"] if self.flag("prefixes") else ["b"])
        else:
            prefix = self.c(["", "", "", "r", "R", "u", "U"] if self.flag("prefixes") else ["", "", "", "r"])
        raw = "r" in prefix.lower()
        quote = self.c(["'", '"', "'''", '"""'] if not self.in_fstring else ["'"])
        if self.in_fstring:
            # inside an f-string replacement field: plain, different quote than the (double-quoted) host
            return prefix + "'" + self.c(["", "k", "a b"]) + "'"
        pieces = []
        for _ in range(self.i(0, 4)):
            opts = ["abc", " ", "#", "(", ")", "[", "]", "{", "}", "if", "def f():", "%s", ";", "x = 1", ":", ","]
            if kind != "b":
                opts += ["é", "中"]
            if self.flag("odd_separators"):
                # characters str.splitlines() treats as line boundaries although Python's tokenizer does not
                opts += ["\x0c", "\x0b", "\x1c"] + (["\x85", "\u2028"] if kind != "b" else [])
            if quote[0] == "'":
                opts.append('"')
            else:
                opts.append("'")
            if not raw:
                opts += ["\\n", "\\\\", "\\" + quote[0], "\\x41", "\\t"]
                if kind != "b":
                    opts += ["\\u00e9", "\\N{BULLET}"]
            else:
                opts += ["\\d", "\\" + quote[0]]
            if len(quote) == 3:
                opts += ["\n", "\n    ", quote[0], quote[0] * 2 + " "]
                if not raw:
                    opts += ["\\\n"]
            pieces.append(self.c(opts))
        body = "".join(pieces)
        if len(quote) == 3:
            # a body must not end with the quote char (would merge with the terminator) nor contain it tripled
            while body.endswith(quote[0]) or (raw and body.endswith("\\")):
                body += " "
            body = body.replace(quote, quote[0] * 2 + " ")
        if raw and body.endswith("\\"):
            body += " "
        return prefix + quote + body + quote

    def fstring(self):
        prefix = self.c(["f", "F", "fr", "fR", "Fr", "FR", "rf", "rF", "Rf", "RF"] if self.flag("prefixes") else ["f"])
        raw = "r" in prefix.lower()
        triple = self.b(1, 5)
        quote = '"""' if triple else '"'
        self.in_fstring += 1
        try:
            parts = []
            for _ in range(self.i(0, 3)):
                if self.b():
                    lit = self.c(["abc", " ", "#", "(", "]", "{{", "}}", "if", "'", "é", ":", "!"])
                    if not raw and self.b(1, 4):
                        lit += self.c(["\\n", "\\\\", "\\t"])
                    if triple and self.b(1, 4):
                        lit += "\n"
                    parts.append(lit)
                    if lit.startswith("#") and self.b(2, 3):
                        # a '#' in the literal text directly before a replacement field (f"item #{n}")
                        parts.append("{" + self.c(["a", "x", "foo"]) + "}")
                else:
                    e = self.fexpr()
                    conv = self.c(["", "", "!r", "!s", "!a"])
                    spec = self.c(["", "", ":>10", ":.2f", ":{%s}" % self.c(["a", "x", "foo"]), ":x", ":^{a}.{b}"])
                    eq = "=" if self.b(1, 8) else ""
                    parts.append("{" + self.c(["", " "]) + e + eq + conv + spec + "}")
            body = "".join(parts)
            if raw and body.endswith("\\"):
                body += " "
        finally:
            self.in_fstring -= 1
        return prefix + quote + body + quote

    def fexpr(self):
        r = self.i(0, 7)
        if r <= 2:
            return self.c(["a", "x", "foo", "self"])
        if r == 3:
            return self.c(["a", "x"]) + "." + self.c(["b", "y"])
        if r == 4:
            return self.c(["foo", "len"]) + "(" + self.c(["a", "x, 1", ""]) + ")"
        if r == 5:
            return self.c(["a", "x"]) + self.c([" + ", "*", " - "]) + self.c(["1", "b"])
        if r == 6:
            return "a[" + self.c(["0", "'k'", "x"]) + "]"
        if self.flag("pep701"):
            return self.c(['d["k"]', 'f"{x}"', '"s" + a'])
        return "(a, b)"

    def strings(self):
        s = self.string()
        if self.flag("implicit_concat") and self.b(1, 4):
            isb = s.lstrip("rRbBuUfF")[:0] == "" and ("b" in s.split("'")[0].split('"')[0].lower())
            for _ in range(self.i(1, 2)):
                t = self.string()
                tb = "b" in t.split("'")[0].split('"')[0].lower()
                if tb != isb:
                    continue
                s += self.bws_or_sp() + t
        return s

    def bws_or_sp(self):
        return self.c([" ", "  ", " "])

    # ----------------------------------------------------------------- expressions

    def expr(self, depth=0, noparen=False):
        """any expression; depth limits recursion"""
        self.budget -= 1
        if depth >= 3 or self.budget <= 0:
            e = self.atom(depth)
        else:
            r = self.i(0, 21)
            if r <= 4:
                e = self.atom(depth)
            elif r <= 7:
                e = self.binop(depth)
            elif r == 8:
                e = self.unary(depth)
            elif r == 9:
                e = self.boolop(depth)
            elif r == 10:
                e = self.compare(depth)
            elif r <= 12:
                e = self.call(depth)
            elif r == 13:
                if self.flag("multiline") and not self.in_fstring and self.b(1, 3):
                    # a dotted chain broken over lines (legal inside brackets)
                    e = self.c("([{")
                    e += self.bws() + self.name() + self.c(["\n  ", " # c\n", " "]) + "." + self.bws() + self.c(["attr", "b"]) + self.bws() + "." + self.bws() + self.c(["x", "m"]) + self.bws() + {"(": ")", "[": "]", "{": "}"}[e]
                else:
                    e = self.primary(depth) + self.ws() + "." + self.ws() + self.c(["attr", "b", "x", "m"])
            elif r == 14:
                e = self.subscript(depth)
            elif r <= 16:
                e = self.display(depth)
            elif r == 17:
                e = self.comprehension(depth)
            elif r == 18 and (self.profile != "binding" or self.b(1, 4)):
                e = self.lambda_(depth)
            elif r == 19:
                e = self.ifexp(depth)
            elif r == 20 and self.flag("walrus") and not self.in_fstring:
                e = "(" + self.ws() + self.c(["w0", "w1"]) + self.op(":=") + self.expr(depth + 1) + self.ws() + ")"
            else:
                e = self.atom(depth)
        if not noparen and self.flag("redundant_parens") and self.b(1, 6):
            e = "(" + self.bws() + e + self.bws() + ")"
            if self.b(1, 4):
                e = "(" + e + ")"
        return e

    def atom(self, depth):
        r = self.i(0, 9)
        if r <= 3:
            return self.name()
        if r <= 5:
            return self.number()
        if r <= 7:
            return self.strings()
        return self.c(["None", "True", "False", "..."])

    def primary(self, depth):
        """something that can take .attr / (call) / [subscript] without parentheses"""
        r = self.i(0, 5)
        if r <= 2 or depth >= 3:
            return self.name()
        if r == 3:
            return self.call(depth + 1)
        if r == 4:
            return "(" + self.bws() + self.expr(depth + 1) + self.bws() + ")"
        return self.string(allow_f=False)

    def wrap(self, e):
        return "(" + e + ")"

    def operand(self, depth):
        """operand of a tighter-binding operator: atoms, primaries, or parenthesised anything"""
        r = self.i(0, 5)
        if r <= 2:
            return self.atom(depth)
        if r == 3:
            return self.primary(depth)
        if r == 4 and depth < 3:
            return self.call(depth + 1)
        return "(" + self.bws() + self.expr(depth + 1) + self.bws() + ")"

    def binop(self, depth):
        n = self.i(1, 3)
        s = self.operand(depth)
        for _ in range(n):
            o = self.c(["+", "-", "*", "/", "//", "%", "**", "<<", ">>", "&", "|", "^", "@"])
            s += self.cont_op(o) + self.operand(depth)
        return s

    def cont_op(self, o):
        """binary operator token with optional backslash continuation before/after (only outside brackets is it needed,
        inside it is legal too unless in an f-string)"""
        if self.flag("backslash") and not self.in_fstring and self.b(1, 8):
            return " \\\n" + " " * self.i(1, 8) + o + self.ws()
        return self.op(o)

    def unary(self, depth):
        o = self.c(["-", "+", "~", "not ", "not  ", "- ", "-"])
        return o + self.operand(depth)

    def boolop(self, depth):
        o = self.c(["and", "or"])
        s = self.operand(depth)
        for _ in range(self.i(1, 2)):
            s += self.sp() + o + self.sp() + self.operand(depth)
        return s

    def compare(self, depth):
        s = self.operand(depth)
        for _ in range(self.i(1, 2)):
            o = self.c(["<", ">", "==", "!=", "<=", ">=", " in ", " not in ", " is ", " is not ", " not  in ", " is  not "])
            s += (o if o.startswith(" ") else self.op(o)) + self.operand(depth)
        return s

    def arglist(self, depth):
        if self.b(1, 8) and not self.in_fstring:
            # sole generator argument
            return self.bws() + self.compbody(depth) + self.bws()
        items = []
        n = self.i(0, 3)
        for _ in range(n):
            items.append(self.expr(depth + 1))
        if self.b(1, 5) and (self.profile != "clean"):
            items.append("*" + self.ws() + self.operand(depth + 1))
        kws = ["k", "key", "sep", "x"]
        k0 = self.i(0, 3)
        for j in range(self.i(0, 2)):
            items.append(kws[(k0 + j) % 4] + self.op("=") + self.expr(depth + 1))
        if self.b(1, 6):
            items.append("**" + self.ws() + self.operand(depth + 1))
        s = self.bws() + ("," + self.bws()).join(items) + self.bws()
        if items and self.b(1, 5):
            s += "," + self.bws()
        return s

    def call(self, depth):
        return self.primary(depth + 1) + self.c(["", "", " "]) + "(" + self.arglist(depth) + ")"

    def slice_(self, depth):
        r = self.i(0, 6) if self.profile != "clean" else self.i(0, 3)
        e = lambda: self.expr(depth + 2, noparen=False)  # noqa: E731
        if r <= 2:
            return e()
        if r == 3:
            return self.c(["", e()]) + self.ws() + ":" + self.ws() + self.c(["", e()])
        if r == 4:
            return self.c(["", e()]) + ":" + self.c(["", e()]) + ":" + self.c(["", e()])
        if r == 5:
            return ":"
        return "::" + e()

    def subscript(self, depth):
        n = self.i(1, 2)
        parts = [self.slice_(depth) for _ in range(n)]
        s = self.bws() + ("," + self.bws()).join(parts)
        if n == 1 and self.b(1, 8):
            s += ","
        return self.primary(depth + 1) + "[" + s + self.bws() + "]"

    def display(self, depth):
        r = self.i(0, 8)
        items = [self.expr(depth + 1) for _ in range(self.i(0, 3))]
        if self.flag("starred") and items and self.b(1, 4):
            items[self.i(0, len(items) - 1)] = "*" + self.operand(depth + 1)
        sep = "," + self.bws()
        trail = "," if items and self.b(1, 4) else ""
        if r <= 2:
            return "[" + self.bws() + sep.join(items) + trail + self.bws() + "]"
        if r <= 4:
            if len(items) == 1:
                if not self.flag("tuple1"):
                    items.append(self.atom(depth))
                    return "(" + self.bws() + sep.join(items) + self.bws() + ")"
                return "(" + self.bws() + items[0] + self.ws() + "," + self.bws() + ")"
            return "(" + self.bws() + sep.join(items) + trail + self.bws() + ")"
        if r == 5 and items:
            return "{" + self.bws() + sep.join(items) + trail + self.bws() + "}"
        pairs = []
        for _ in range(self.i(0, 3)):
            if self.b(1, 6):
                pairs.append("**" + self.operand(depth + 1))
            else:
                pairs.append(self.expr(depth + 1) + self.ws() + ":" + self.ws() + self.expr(depth + 1))
        trail = "," if pairs and self.b(1, 4) else ""
        return "{" + self.bws() + sep.join(pairs) + trail + self.bws() + "}"

    def target(self, depth=0, simple=False):
        r = self.i(0, 7)
        if r <= 3 or depth >= 2:
            return self.c(["a", "b", "x", "y", "t0", "t1"])
        if r == 4:
            return self.name() + "." + self.c(["attr", "x"])
        if r == 5:
            return self.name() + "[" + self.expr(2) + "]"
        if simple:
            return self.c(["a", "b"])
        items = [self.target(depth + 1) for _ in range(self.i(1, 3))]
        if self.flag("starred") and self.b(1, 4):
            items[self.i(0, len(items) - 1)] = "*" + self.c(["rest", "a"])
        br = self.c(["()", "[]", ""]) if depth == 0 else self.c(["()", "[]"])
        s = ("," + self.ws()).join(items)
        if len(items) == 1:
            s += ","
        if br:
            return br[0] + s + br[1]
        return s

    def comp_target(self):
        r = self.i(0, 3)
        if r <= 1:
            return self.c(["i", "j", "k"])
        if r == 2:
            return self.c(["i", "j"]) + self.op(",") + self.c(["k", "v"])
        return "(" + self.c(["i", "j"]) + ", " + self.c(["k", "v"]) + ")"

    def compbody(self, depth, elt=None):
        self.in_comp += 1
        try:
            elt = elt if elt is not None else self.expr(depth + 1)
            s = elt
            for _ in range(self.i(1, 2)):
                s += self.bws() + self.sp().replace("", "", 1) + "for" + self.sp() + self.comp_target() + self.sp() + "in" + self.sp() + self.operand(depth + 1)
                for _ in range(self.i(0, 2)):
                    s += self.bws() + " if" + self.sp() + self.operand(depth + 1)
            return s
        finally:
            self.in_comp -= 1

    def comprehension(self, depth):
        if self.in_fstring:
            return self.atom(depth)
        r = self.i(0, 3)
        if r == 0:
            return "[" + self.bws() + self.compbody(depth) + self.bws() + "]"
        if r == 1:
            return "(" + self.bws() + self.compbody(depth) + self.bws() + ")"
        if r == 2:
            return "{" + self.bws() + self.compbody(depth) + self.bws() + "}"
        return "{" + self.bws() + self.compbody(depth, self.expr(depth + 1) + self.op(":") + self.expr(depth + 1)) + self.bws() + "}"

    def lambda_(self, depth):
        params = self.params(lambda_=True)
        return "lambda" + ((" " + params) if params else "") + self.ws() + ":" + self.ws() + self.expr(depth + 1)

    def ifexp(self, depth):
        return self.operand(depth) + self.sp() + "if" + self.sp() + self.operand(depth) + self.sp() + "else" + self.sp() + self.expr(depth + 1)

    # ----------------------------------------------------------------- parameters

    def params(self, lambda_=False, method=False):
        names = ["p0", "p1", "p2", "p3", "p4", "p5", "p6"]
        k = 0
        parts = []
        if method:
            parts.append(self.c(["self", "self", "cls"]))

        def ann():
            if lambda_ or not self.flag("annotations") or self.b():
                return ""
            return self.ws() + ":" + self.ws() + self.c(["int", "'str'", "list[int]", "a.b", "None"])

        def default():
            return self.op("=") + self.expr(2)

        npos = self.i(0, 2) if self.flag("posonly") else 0
        nreg = self.i(0, 3)
        seen_default = False
        for i in range(npos + nreg):
            p = names[k] + ann()
            k += 1
            if seen_default or self.b(1, 4):
                seen_default = True
                p += default()
            parts.append(p)
            if npos and i == npos - 1:
                parts.append("/")
        star = False
        if self.b(1, 4):
            parts.append("*" + self.ws() + "args" + ann())
            star = True
        if self.flag("kwonly") and self.b(1, 3):
            if not star:
                parts.append("*")
            for _ in range(self.i(1, 2)):
                p = names[k] + ann()
                k += 1
                if self.b():
                    p += default()
                parts.append(p)
        if self.b(1, 4):
            parts.append("**" + self.ws() + "kw" + ann())
        s = ("," + (self.ws() if lambda_ else self.bws())).join(parts)
        if parts and parts[-1] != "/" and not parts[-1].startswith("*" + "*") and self.b(1, 6) and not (parts[-1] == "*"):
            s += ","
        if parts and parts[-1] == "*":
            return ("," + self.ws()).join(parts[:-1])
        return s

    # ----------------------------------------------------------------- statements

    def simple_stmt(self):
        r = self.i(0, 19)
        if r <= 4:
            n = self.i(1, 2)
            tg = self.op("=").join(self.target() for _ in range(n))
            val = self.expr()
            if self.in_def and self.flag("yield") and not self.in_async and self.b(1, 10) and not self.in_class_body:
                val = self.c(["yield", "yield " + self.expr(1), "yield from " + self.operand(1)])
                if val != "yield":
                    pass
            return tg + self.op("=") + val
        if r == 5:
            return self.target(simple=True) + self.op(self.c(["+=", "-=", "*=", "/=", "//=", "%=", "**=", ">>=", "<<=", "&=", "^=", "|=", "@="])) + self.expr()
        if r == 6 and self.flag("annotations"):
            t = self.c(["a", "x", "self.attr", "(a)", "a[0]"])
            s = t + self.ws() + ":" + self.ws() + self.c(["int", "'T'", "list[int]", "a.b"])
            if self.b():
                s += self.op("=") + self.expr()
            return s
        if r <= 9:
            return self.expr()
        if r == 10:
            return "pass"
        if r == 11 and self.in_loop and not self.in_except_star:
            return self.c(["break", "continue"])
        if r == 12 and self.in_def and not self.in_class_body and not self.in_except_star:
            if self.in_async and self.b(1, 1):
                return self.c(["return", "return " + self.expr()])
            return self.c(["return", "return " + self.expr(), "return " + self.expr() + ", " + self.expr(1)])
        if r == 13:
            return self.c(["raise", "raise " + self.expr(1), "raise " + self.operand(1) + " from " + self.operand(1)]) if True else ""
        if r == 14:
            return "assert " + self.expr(1) + self.c(["", ", " + self.expr(1)])
        if r == 15:
            return "del " + self.c(["a", "a, b", "a[0]", "a.b", "(a)", "[a, b]", "a[1:2], b.c"])
        if r == 16:
            return self.import_stmt()
        if r == 17 and self.in_def and self.in_async and not self.in_class_body:
            return self.c(["await " + self.operand(1), "x = await " + self.operand(1)])
        if r == 18 and self.in_def and self.flag("yield") and not self.in_async and not self.in_class_body:
            return self.c(["yield", "yield " + self.expr(1), "yield from " + self.operand(1)])
        return self.c(["a", "x"]) + self.op("=") + self.expr()

    def import_stmt(self):
        r = self.i(0, 6)
        if r <= 1:
            return "import " + self.c(["os", "os.path", "a.b.c", "sys as s", "os, sys", "a.b as c, d"])
        if r <= 3:
            return "from " + self.c(["os", "a.b", ".", "..", ".m", "..pk.m", "os.path"]) + " import " + self.c(["x", "x as y", "x, y", "(x, y)", "(x as z,\n    y,)", "(\n  x,\n  y\n)"])
        if r == 4 and not self.in_def and not self.in_class_body and self.fn_depth == 0 and not self.in_loop_or_block:
            return "from " + self.c(["os", "a.b", ".m"]) + " import *"
        return "import " + self.c(["json", "re"])

    in_loop_or_block = False

    def line_of_simple(self, indent):
        if self.flag("backslash") and self.b(1, 10):
            return indent + self.c(["a", "x"]) + " = \\\n" + indent + "    " + self.expr() + "\n"
        n = self.i(1, 3) if self.flag("semicolons") else 1
        stmts = [self.simple_stmt() for _ in range(n)]
        s = indent + (self.ws() + ";" + self.ws()).join(stmts)
        if n > 1 and self.b(1, 4):
            s += ";"
        if self.flag("comments") and self.b(1, 4):
            s += self.ws() + self.comment()
        return s + "\n"

    def noise(self, indent):
        """blank and comment-only lines"""
        if not self.flag("comments") or self.b(2, 3):
            return ""
        r = self.i(0, 3)
        if r == 0:
            return "\n"
        if r == 1:
            return self.c(["", " ", "   "]) + "\n"
        if r == 2:
            return indent + self.comment() + "\n"
        return self.c(["", "  ", indent + "      "]) + self.comment() + "\n"

    def block(self, indent, min_stmts=1):
        """indented suite (text starting after the ':' of the header, including the newline)"""
        if self.flag("oneline_suites") and self.b(1, 6):
            n = self.i(1, 2) if self.flag("semicolons") else 1
            return self.ws() + (self.ws() + ";" + self.ws()).join(self.simple_stmt() for _ in range(n)) + "\n"
        width = self.c(["    ", "    ", "  ", " ", "        ", "\t"] if self.flag("tabs") else ["    ", "    ", "  ", " "])
        if "\t" in indent or width == "\t":
            width = "\t" if (indent == "" or set(indent) == {"\t"}) else "    "
            if indent and set(indent) != {"\t"}:
                width = "    "
        inner = indent + width
        head = ""
        if self.flag("comments") and self.b(1, 5):
            head = self.ws() + self.comment()
        s = head + "\n"
        old = self.in_loop_or_block
        self.in_loop_or_block = True
        n = max(min_stmts, self.i(1, 3))
        for _ in range(n):
            s += self.noise(inner)
            s += self.stmt(inner)
        self.in_loop_or_block = old
        return s

    def stmt(self, indent):
        self.budget -= 2
        if self.budget <= 0 or len(indent) > 12:
            return self.line_of_simple(indent)
        r = self.i(0, 29)
        if r <= 11:
            return self.line_of_simple(indent)
        if r <= 13:
            s = indent + "if" + self.sp() + self.expr(1) + self.ws() + ":" + self.block(indent)
            for _ in range(self.i(0, 2)):
                s += self.noise(indent) if self.b(1, 4) else ""
                s += indent + "elif" + self.sp() + self.expr(1) + self.ws() + ":" + self.block(indent)
            if self.b(1, 3):
                s += indent + "else" + self.ws() + ":" + self.block(indent)
            return s
        if r <= 15:
            kw = "for"
            if self.in_async and self.in_def and self.b(1, 3) and not self.in_class_body:
                kw = "async for"
            old, self.in_loop = self.in_loop, True
            s = indent + kw + self.sp() + self.c(["i", "i, j", "(i, j)", "i, (j, k)", "a.x", "a[0]", "*i, j"] if self.flag("starred") else ["i", "i, j", "(i, j)", "i, (j, k)"]) + self.sp() + "in" + self.sp() + self.expr(1) + self.ws() + ":" + self.block(indent)
            self.in_loop = old
            if self.b(1, 4):
                s += indent + "else:" + self.block(indent)
            return s
        if r == 16:
            old, self.in_loop = self.in_loop, True
            s = indent + "while" + self.sp() + self.expr(1) + self.ws() + ":" + self.block(indent)
            self.in_loop = old
            if self.b(1, 4):
                s += indent + "else:" + self.block(indent)
            return s
        if r <= 18:
            return self.try_stmt(indent)
        if r == 19:
            kw = "with"
            if self.in_async and self.in_def and self.b(1, 3) and not self.in_class_body:
                kw = "async with"
            items = []
            for _ in range(self.i(1, 2)):
                it = self.operand(1)
                if self.b():
                    it += self.sp() + "as" + self.sp() + self.c(["f", "g", "(f, g)", "a.x", "f[0]"])
                items.append(it)
            body = (self.ws() + "," + self.ws()).join(items)
            if self.flag("with_paren") and self.b(1, 3):
                body = "(" + self.bws() + ("," + self.bws()).join(items) + self.c(["", ","]) + self.bws() + ")"
            return indent + kw + self.sp() + body + self.ws() + ":" + self.block(indent)
        if r <= 23:
            return self.funcdef(indent)
        if r <= 25:
            return self.classdef(indent)
        if r == 26 and self.flag("match"):
            return self.match_stmt(indent)
        if r == 27 and self.flag("pep695") and not self.in_def and not self.in_class_body:
            return indent + "type " + self.c(["Alias", "T2"]) + self.c(["", "[T]", "[T: int, *Ts, **P]"]) + " = " + self.c(["int", "list[T]", "dict[str, int]"]) + "\n"
        if r == 28 and self.in_def and not self.in_class_body:
            return self.scope_decl(indent)
        return self.line_of_simple(indent)

    def scope_decl(self, indent):
        if len(self.locals_stack) >= 2 and self.flag("nonlocal") and self.b():
            n = self.c(self.locals_stack[-2])
            return indent + "nonlocal " + n + "\n" + indent + n + " = " + self.expr(1) + "\n"
        n = self.c(["G0", "G1"])
        return indent + "global " + n + "\n" + indent + n + self.c([" = ", " += "]) + self.expr(1) + "\n"

    def try_stmt(self, indent):
        s = indent + "try" + self.ws() + ":" + self.block(indent)
        star = self.flag("try_star") and self.b(1, 4)
        nex = self.i(0, 2)
        fin = self.b(1, 3)
        if nex == 0 and not fin:
            nex = 1
        for i in range(nex):
            if star:
                old, self.in_except_star = self.in_except_star, True
                s += indent + "except*" + self.sp() + self.c(["E", "(E, F)", "a.Err"]) + self.c(["", " as e"]) + self.ws() + ":" + self.block(indent)
                self.in_except_star = old
            else:
                last = i == nex - 1
                h = self.c(["except", "except E", "except (E, F)", "except E as e", "except a.b.Err as e"]) if last else self.c(["except E", "except (E, F) as e", "except E as e"])
                s += indent + h + self.ws() + ":" + self.block(indent)
        if nex and self.b(1, 4):
            s += indent + "else" + self.ws() + ":" + self.block(indent)
        if fin:
            old, self.in_loop = self.in_loop, False
            s += indent + "finally" + self.ws() + ":" + self.block(indent)
            self.in_loop = old
        return s

    def decorators(self, indent):
        s = ""
        if self.flag("decorators"):
            for _ in range(self.i(0, 2)):
                s += indent + "@" + self.ws() + self.c(["dec", "a.b", "dec(1)", "a.b(c, k=1)", "staticmethod", "property", "(lambda f: f)", "dec[0]"]) + self.c(["", "  # c"]) + "\n"
                if self.flag("comments") and self.b(1, 6):
                    s += indent + "# between decorators\n"
        return s

    def funcdef(self, indent):
        is_async = self.flag("async") and self.b(1, 4)
        name = self.c(["f", "g", "h", "method", "_p", "__init__", "f"])
        tparams = self.c(["[T]", "[T, U: int]", "[*Ts]"]) if self.flag("pep695") and self.b(1, 4) else ""
        method = self.in_class_body and self.b(3, 4)
        saved = (self.in_def, self.in_async, self.in_loop, self.in_class_body, self.in_except_star)
        self.in_def, self.in_async, self.in_loop, self.in_class_body, self.in_except_star = True, is_async, False, False, False
        self.fn_depth += 1
        params = self.params(method=method)
        ret = ""
        if self.flag("annotations") and self.b(1, 3):
            ret = self.op("->") + self.c(["int", "'T'", "None", "list[int]"])
        self.locals_stack.append(["l%da" % self.fn_depth, "l%db" % self.fn_depth])
        body_prefix = ""
        try:
            head = self.decorators(indent) + indent + ("async " if is_async else "") + "def" + self.sp() + name + tparams + self.c(["", " "]) + "(" + params + ")" + ret + self.ws() + ":"
            body = self.block(indent)
            if not body.lstrip(" \t").startswith("\n") and not body.startswith("\n"):
                s = head + body
            else:
                # make sure the names offered to nonlocal are bound in this function: inject l0/l1 assignments first
                first_nl = body.index("\n")
                rest = body[first_nl + 1:]
                inner = rest[: len(rest) - len(rest.lstrip(" \t"))] if rest.strip() else indent + "    "
                # find indentation of first real statement line
                for ln in rest.split("\n"):
                    if ln.strip() and not ln.strip().startswith("#"):
                        inner = ln[: len(ln) - len(ln.lstrip(" \t"))]
                        break
                body_prefix = inner + " = ".join(self.locals_stack[-1]) + " = 0\n" if self.flag("nonlocal") else ""
                s = head + body[: first_nl + 1] + body_prefix + rest
        finally:
            self.locals_stack.pop()
            self.fn_depth -= 1
            self.in_def, self.in_async, self.in_loop, self.in_class_body, self.in_except_star = saved
        return s

    def classdef(self, indent):
        name = self.c(["C", "D", "Klass", "_E"])
        tparams = self.c(["[T]", "[T: (int, str)]"]) if self.flag("pep695") and self.b(1, 4) else ""
        bases = []
        for _ in range(self.i(0, 2)):
            bases.append(self.c(["B", "a.B", "object", "Base[int]", "mixin()"]))
        if self.flag("class_kw") and self.b(1, 3):
            bases.append(self.c(["metaclass=M", "metaclass = a.M", "flag=True", "**kw"]))
        par = ""
        if bases or self.b(1, 4):
            par = "(" + self.bws() + ("," + self.bws()).join(bases) + self.bws() + ")"
        saved = (self.in_def, self.in_async, self.in_loop, self.in_class_body, self.in_except_star)
        self.in_async, self.in_loop, self.in_class_body, self.in_except_star = False, False, True, False
        try:
            s = self.decorators(indent) + indent + "class" + self.sp() + name + tparams + par + self.ws() + ":" + self.block(indent)
        finally:
            self.in_def, self.in_async, self.in_loop, self.in_class_body, self.in_except_star = saved
        return s

    def pattern(self, depth=0, capture_ok=True):
        r = self.i(0, 11)
        if r <= 1 or depth >= 2:
            return self.c(["1", "'s'", "None", "True", "-1", "1.5", "b'x'", "1+2j"])
        if r == 2 and capture_ok:
            return self.c(["cap", "v0", "v1"])
        if r == 3:
            return "_"
        if r == 4:
            return self.c(["a.b", "Color.RED", "a.b.c"])
        if r == 5:
            items = [self.pattern(depth + 1, capture_ok) for _ in range(self.i(0, 3))]
            names = set()
            # captures must be unique inside one pattern: drop duplicates
            out = []
            for it in items:
                if it in ("cap", "v0", "v1"):
                    if it in names:
                        it = "_"
                    names.add(it)
                out.append(it)
            if capture_ok and self.b(1, 4):
                out.append("*rest")
            br = self.c(["[]", "()"])
            s = ", ".join(out)
            if br == "()" and len(out) == 1:
                s += ","
            return br[0] + s + br[1]
        if r == 6:
            items = ["%s: %s" % (k, self.pattern(depth + 2, False)) for k in self.c([["'k'"], ["'a'", "1"], []])]
            if capture_ok and self.b(1, 2):
                if self.b(1, 2):
                    items = []  # the capture as the only element: {**rest}
                items.append("**" + self.c(["rest", "others"]))
            return "{" + ", ".join(items) + self.c(["", ""]) + "}"
        if r == 7:
            return self.c(["Point", "a.Cls", "int"]) + "(" + self.c(["", "1", "x=1", "0, y=2", "_"]) + ")"
        if r == 8:
            return " | ".join(self.pattern(depth + 2, False) for _ in range(self.i(2, 3)))
        if r == 9 and capture_ok and depth == 0:
            return self.pattern(depth + 2, False) + " as bound"
        if r == 10:
            return "(" + self.pattern(depth + 1, False) + ")"
        return self.c(["0", "'x'"])

    def match_stmt(self, indent):
        inner = indent + "    "
        s = indent + "match" + self.sp() + self.c(["x", "(a, b)", "a, b", "foo(1)", "a.b", "[1, 2]"]) + self.ws() + ":\n"
        n = self.i(1, 3)
        for k in range(n):
            last = k == n - 1
            pat = self.pattern(capture_ok=last)
            if last and self.b(1, 4):
                # a mapping pattern with a rest capture, also as its only element
                pat = self.c(["{**rest}", "{'k': 1, **rest}", "{**others}", "{1: _, 'a': v0, **rest}"])
            if pat in ("cap", "v0", "v1", "_") and not last:
                pat = "0"
            guard = (" if " + self.expr(2)) if self.b(1, 4) else ""
            if self.flag("comments") and self.b(1, 5):
                s += inner + "# case comment\n"
            s += inner + "case" + self.sp() + pat + guard + self.ws() + ":" + self.block(inner)
        return s

    def module(self):
        s = ""
        if self.flag("docstring") and self.b():
            s += self.c(['"""doc"""\n', "'''multi\nline doc # not comment\n'''\n", '"doc"\n', "# leading comment\n\"\"\"doc\"\"\"\n"])
        if self.flag("future") and self.b(1, 3):
            s += "from __future__ import annotations\n"
        n = self.i(1, 4)
        for _ in range(n):
            s += self.noise("")
            s += self.stmt("")
        if self.b(1, 6):
            s = s.rstrip("\n")
            if s.endswith("\\"):
                s += "\n"
        if self.flag("comments") and self.b(1, 6):
            s += ("\n" if not s.endswith("\n") else "") + "# trailing comment" + self.c(["", "\n"])
        return s


FLAGS = [
    "tabs", "multiline", "comments", "unicode_ident", "nfkc_ident", "softkw_names", "fancy_numbers", "fstrings", "prefixes",
    "pep701", "implicit_concat", "walrus", "redundant_parens", "backslash", "starred", "tuple1", "annotations", "posonly",
    "kwonly", "yield", "semicolons", "oneline_suites", "with_paren", "match", "pep695", "nonlocal", "try_star", "decorators",
    "async", "class_kw", "docstring", "future", "odd_separators",
]


@st.composite
def grammar(draw, profile="general", budget=36):
    g = G(draw, profile, budget)
    return g.module()


def compiles(src):
    try:
        compile(src, "<gen>", "exec", dont_inherit=True)
        return True
    except (SyntaxError, ValueError):
        return False
    except RecursionError:
        return False


# --------------------------------------------------------------------------- corpus and soup

_CORPUS = None


def corpus_files():
    std = sysconfig.get_paths()["stdlib"]
    files = sorted(glob.glob(std + "/**/*.py", recursive=True))
    files = [f for f in files if "site-packages" not in f and "/test/" not in f and "/tests/" not in f and "lib2to3/tests" not in f and "idlelib/idle_test" not in f]
    rope_src = os.environ.get("ROPE_SRC", "/repo")
    files += sorted(glob.glob(rope_src + "/rope/**/*.py", recursive=True))
    return files


def read_source(path):
    try:
        with open(path, "rb") as f:
            data = f.read()
        enc = tokenize.detect_encoding(io.BytesIO(data).readline)[0]
        src = data.decode(enc)
    except Exception:
        return None
    if src.startswith("﻿"):
        src = src[1:]
    src = src.replace("\r\n", "\n").replace("\r", "\n")
    if "\x0c" in src:
        src = src.replace("\x0c", "")
    try:
        compile(src, path, "exec", dont_inherit=True)
    except Exception:
        return None
    return src


_SOUP = None


def soup_pool(max_files=400, max_len=1200):
    """deterministic pool of top-level statement slices (text incl. leading comment lines)"""
    global _SOUP
    if _SOUP is not None:
        return _SOUP
    pool = []
    files = corpus_files()
    step = max(1, len(files) // max_files)
    for path in files[::step]:
        src = read_source(path)
        if src is None or len(src) > 120000:
            continue
        try:
            tree = ast.parse(src)
        except Exception:
            continue
        lines = src.split("\n")
        prev_end = 0
        for node in tree.body:
            start = min([node.lineno] + [d.lineno for d in getattr(node, "decorator_list", [])])
            end = node.end_lineno
            if start <= prev_end:  # shares a line with the previous statement (a; b)
                prev_end = max(prev_end, end)
                continue
            # pull preceding comment lines
            s = start
            while s - 1 > prev_end and lines[s - 2].lstrip().startswith("#"):
                s -= 1
            text = "\n".join(lines[s - 1: end]) + "\n"
            prev_end = end
            if len(text) <= max_len and not isinstance(node, ast.ImportFrom) or (isinstance(node, ast.ImportFrom) and node.module != "__future__" and len(text) <= max_len):
                if compiles(text):
                    pool.append(text)
    _SOUP = pool
    return pool


@st.composite
def soup(draw, max_stmts=5):
    pool = soup_pool()
    idx = draw(st.lists(st.integers(0, len(pool) - 1), min_size=1, max_size=max_stmts))
    parts = []
    for i in idx:
        parts.append(pool[i])
        if draw(st.integers(0, 3)) == 0:
            parts.append(draw(st.sampled_from(["\n", "# sep )\n", "\n\n", "    \n"])))
    return "".join(parts)


# --------------------------------------------------------------------------- features


def features(src, tree=None):
    """hazard labels of a valid source text"""
    f = set()
    try:
        tree = tree or ast.parse(src)
    except Exception:
        return {"unparsable"}
    depth = 0
    fdepth = 0
    prev = None
    try:
        toks = list(tokenize.generate_tokens(io.StringIO(src).readline))
    except Exception:
        toks = []
        f.add("untokenizable")
    brack = 0
    hash_line = None
    fs_brace = False
    _fs_state = {}
    quote_stack = []
    for t in toks:
        if t.type == tokenize.OP:
            if t.string in "([{":
                brack += 1
            elif t.string in ")]}":
                brack -= 1
            if t.string == ";":
                f.add("semicolon")
            if t.string == ":=":
                f.add("walrus")
        elif t.type == tokenize.NL and brack > 0:
            f.add("multiline_bracket")
        elif t.type == tokenize.COMMENT:
            f.add("comment")
            if t.string.endswith("\\"):
                f.add("comment_backslash_end")
            if brack > 0:
                f.add("comment_in_bracket")
        elif t.type == tokenize.NUMBER:
            s = t.string
            if "_" in s:
                f.add("num_underscore")
            if s[:2] in ("0b", "0B", "0o", "0O", "0X"):
                f.add("num_prefix")
            if s[:2] == "0x":
                f.add("num_hex")
            if s.startswith(".") or s.endswith(".") or ("." in s and s.split(".")[1][:1] in ("e", "E")):
                f.add("num_dotedge")
        elif t.type == tokenize.STRING:
            p = t.string[: len(t.string) - len(t.string.lstrip("rRbBuUfF"))]
            if p:
                f.add("prefixed_string")
            if len(p) == 2 and p[0] in "rR" and p[1] in "bB":
                f.add("prefix_rb")
            if "\n" in t.string:
                f.add("multiline_string")
            if prev is not None and prev.type == tokenize.STRING:
                f.add("implicit_concat")
        elif t.type == tokenize.FSTRING_START:
            f.add("fstring")
            q = t.string.lstrip("rRfF")
            if q in quote_stack or (quote_stack and q[0] == quote_stack[-1][0]):
                f.add("fstring_nested_quote")
            quote_stack.append(q)
            if prev is not None and prev.type in (tokenize.STRING, tokenize.FSTRING_END):
                f.add("implicit_concat")
        elif t.type == tokenize.FSTRING_END:
            if prev is not None and prev.type == tokenize.FSTRING_START and len(t.string) == 3:
                f.add("empty_triple_fstring")
            if quote_stack:
                quote_stack.pop()
        elif t.type == tokenize.NAME:
            if not t.string.isascii():
                f.add("unicode_ident")
                if unicodedata.normalize("NFKC", t.string) != t.string:
                    f.add("nfkc_ident")
        if quote_stack and t.type == tokenize.STRING:
            q = t.string.lstrip("rRbBuU")[:1]
            if q == quote_stack[-1][0]:
                f.add("fstring_nested_quote")
        if t.type == tokenize.FSTRING_START:
            if prev is not None and prev.type == tokenize.FSTRING_END and _fs_state.get("last_multiline"):
                f.add("multiline_fstring_then_fstring")
            _fs_state.setdefault("stack", []).append(t.start[0])
        if t.type == tokenize.FSTRING_END and _fs_state.get("stack"):
            _fs_state["last_multiline"] = t.end[0] > _fs_state["stack"].pop()
        if t.type == tokenize.FSTRING_START:
            fs_brace = False
        if t.type == tokenize.FSTRING_MIDDLE:
            if "{" in t.string or "}" in t.string:
                fs_brace = True
            if "#" in t.string and fs_brace:
                f.add("fstring_escaped_brace_and_hash")
        if t.type == tokenize.STRING and prev is not None and prev.type == tokenize.FSTRING_END:
            f.add("fstring_then_plain_string")
        if t.type == tokenize.FSTRING_START and prev is not None and prev.type == tokenize.STRING:
            f.add("plain_string_then_fstring")
        if t.type in (tokenize.STRING, tokenize.FSTRING_MIDDLE) and "#" in t.string:
            hash_line = t.end[0]
        elif t.type == tokenize.OP and t.string == "(" and hash_line == t.start[0]:
            f.add("hash_string_then_paren")
        if t.type not in (tokenize.NL, tokenize.COMMENT):
            prev = t
    if "\\\n" in src:
        f.add("backslash_cont")
    if "\t" in src:
        f.add("tabs")
    for node in ast.walk(tree):
        tn = type(node).__name__
        if tn == "Starred":
            f.add("starred")
        elif tn == "Tuple" and len(node.elts) == 1:
            f.add("tuple1")
        elif tn == "Tuple" and len(node.elts) > 1 and (ast.get_source_segment(src, node) or "").rstrip().endswith(","):
            f.add("bare_tuple_trailing_comma")  # a, b,  written without parentheses: the interpreter's extent includes the last comma
        elif tn in ("FunctionDef", "AsyncFunctionDef", "Lambda"):
            a = node.args
            if a.kwonlyargs:
                f.add("kwonly")
            if a.posonlyargs:
                f.add("posonly")
            if tn == "Lambda":
                f.add("lambda")
            if tn == "AsyncFunctionDef":
                f.add("async")
            if getattr(node, "returns", None) is not None:
                f.add("annotations")
            if getattr(node, "type_params", None):
                f.add("pep695")
            if getattr(node, "decorator_list", None):
                f.add("decorators")
        elif tn == "ClassDef":
            for st_ in node.body:
                if not isinstance(st_, (ast.FunctionDef, ast.AsyncFunctionDef, ast.ClassDef)):
                    for sub in ast.walk(st_):
                        if isinstance(sub, (ast.ListComp, ast.SetComp, ast.DictComp, ast.GeneratorExp)):
                            f.add("comp_in_class_body")
            if node.keywords:
                f.add("class_kw")
            if getattr(node, "type_params", None):
                f.add("pep695")
            if node.decorator_list:
                f.add("decorators")
        elif tn == "TypeAlias":
            f.add("pep695")
        elif tn == "Match":
            f.add("match")
        elif tn == "MatchSequence":
            seg = ast.get_source_segment(src, node) or ""
            if not seg.startswith("["):
                f.add("match_sequence_unbracketed")
        elif tn == "arg" and node.annotation is not None:
            f.add("annotations")
        elif tn == "TryStar":
            f.add("try_star")
        elif tn == "Nonlocal":
            f.add("nonlocal")
        elif tn == "Global":
            f.add("global")
        elif tn == "NamedExpr":
            f.add("walrus")
        elif tn in ("ListComp", "SetComp", "DictComp", "GeneratorExp"):
            f.add("comprehension")
            for sub in ast.walk(node):
                if sub is not node and isinstance(sub, (ast.ListComp, ast.SetComp, ast.DictComp, ast.GeneratorExp)):
                    f.add("nested_comp")
            for sub in ast.walk(node):
                if isinstance(sub, ast.NamedExpr):
                    f.add("walrus_in_comp")
        elif tn in ("Yield", "YieldFrom"):
            f.add("yield")
        elif tn == "Await":
            f.add("await")
        elif tn == "IfExp":
            f.add("ifexp")
        elif tn == "Compare" and len(node.ops) > 1:
            f.add("chained_cmp")
        elif tn == "Dict" and any(k is None for k in node.keys):
            f.add("dict_unpack")
        elif tn == "Slice":
            f.add("slice")
            if node.step is None and hasattr(node, "end_col_offset"):
                seg = ast.get_source_segment(src, node) or ""
                if seg.rstrip().endswith(":") and seg.count(":") >= 2 and node.upper is None or (node.upper is not None and (ast.get_source_segment(src, node) or "").rstrip().endswith(":")):
                    f.add("slice_empty_step")
        elif tn == "With" or tn == "AsyncWith":
            f.add("with")
        elif tn == "Name" and node.id in ("match", "case", "type"):
            f.add("softkw_name")
        elif tn == "AnnAssign":
            f.add("annassign")
        elif tn == "JoinedStr":
            f.add("fstring")
    return f
