"""Shared runner: parallel Hypothesis campaigns, collect-then-bucket-then-shrink,
known-findings protocol, evidence writer.  See DESIGN.md section 1.

A property module (props/cNN_*.py) provides

    PID, LEVEL, RULE, ASSUMPTIONS, TECHNIQUE
    BUDGET = {"quick": (n_examples_total, seconds), "thorough": (...)}
    strategy(tier)                  -> Hypothesis strategy of JSON-able cases   (optional)
    enumerate_cases(tier, k, n)     -> iterable of JSON-able cases for worker k (optional)
    evaluate(case, env)             -> Outcome
    describe(case)                  -> compact JSON-able sample                  (optional)
"""
import argparse
import collections
import hashlib
import importlib
import json
import multiprocessing
import os
import shutil
import sys
import tempfile
import time
import traceback
import warnings

ROOT = os.path.dirname(os.path.dirname(os.path.abspath(__file__)))
ROPE_SRC = os.environ.get("ROPE_SRC", "/repo")

PROPS = {
    "C01": "props.c01_rename",
    "C02": "props.c02_occurrences",
    "C03": "props.c03_extract",
    "C04": "props.c04_inline",
    "C05": "props.c05_move",
    "C06": "props.c06_signature",
    "C07": "props.c07_imports",
    "C08": "props.c08_patchedast",
    "C09": "props.c09_purity",
    "C10": "props.c10_atomic",
    "C11": "props.c11_history",
    "C12": "props.c12_reopen",
    "C13": "props.c13_coherence",
    "C14": "props.c14_textview",
    "C15": "props.c15_scopes",
    "C16": "props.c16_bytes",
    "C17": "props.c17_classrefs",
    "C18": "props.c18_crashsave",
    "C19": "props.c19_restructure",
    "C20": "props.c20_assist",
}


class CaseTimeout(BaseException):
    """one case ran longer than CASE_TIMEOUT seconds (an endless loop in the code under test, or in the harness)"""


CASE_TIMEOUT = int(os.environ.get("VERIF_CASE_TIMEOUT", "300"))
try:  # `kill -USR1 <worker pid>` prints where a worker is (development aid)
    import faulthandler
    import signal as _signal

    faulthandler.register(_signal.SIGUSR1, all_threads=True)
except Exception:
    pass


def _with_watchdog(fn, case, mod):
    """run one case under an alarm: a case that does not come back is reported as a harness error together with the
    case (exit 2, never a VIOLATION line: a time limit says nothing about the property), instead of stalling the check"""
    import signal

    def on_alarm(signum, frame):
        raise CaseTimeout("case did not finish within the case time limit: %s" % json.dumps(case, default=str)[:2000])

    try:
        old = signal.signal(signal.SIGALRM, on_alarm)
    except ValueError:  # not in the main thread
        return fn()
    signal.alarm(getattr(mod, "CASE_TIMEOUT", CASE_TIMEOUT))
    try:
        return fn()
    finally:
        signal.alarm(0)
        signal.signal(signal.SIGALRM, old)


class StopCollect(KeyboardInterrupt):
    """Raised to leave a Hypothesis run when the time budget is used up
    (KeyboardInterrupt subclasses pass through Hypothesis untouched)."""


class HarnessError(Exception):
    pass


class Outcome:
    """What one evaluate(case) call covered."""

    __slots__ = ("evals", "nontrivial", "labels", "violations", "refused", "excluded", "notes", "sample")

    def __init__(self):
        self.evals = 0
        self.nontrivial = set()  # hashable keys of distinct non-trivial sub-cases
        self.labels = collections.Counter()
        self.violations = []  # dicts {sig, detail, sub}
        self.refused = 0
        self.excluded = collections.Counter()
        self.notes = collections.Counter()
        self.sample = None

    def violation(self, sig, detail="", sub=None):
        self.violations.append({"sig": sig, "detail": str(detail)[:2000], "sub": sub})


class Env:
    """Tells a property module which known-finding predicates are active."""

    def __init__(self, active):
        self.active = set(active)

    def known(self, name):
        return name in self.active


def case_hash(case):
    return hashlib.sha1(json.dumps(case, sort_keys=True, default=str).encode()).hexdigest()[:16]


def _h(key):
    return hashlib.sha1(repr(key).encode()).digest()[:8]


# --------------------------------------------------------------------------- scratch dirs

_SCRATCH = None


def scratch_root():
    global _SCRATCH
    if _SCRATCH is None or not os.path.isdir(_SCRATCH) or _SCRATCH_PID != os.getpid():
        _new_scratch()
    return _SCRATCH


_SCRATCH_PID = None


def _new_scratch():
    global _SCRATCH, _SCRATCH_PID
    base = "/dev/shm" if os.path.isdir("/dev/shm") and os.access("/dev/shm", os.W_OK) else tempfile.gettempdir()
    _SCRATCH = tempfile.mkdtemp(prefix="ropeverif-%d-" % os.getpid(), dir=base)
    _SCRATCH_PID = os.getpid()


def fresh_dir(prefix="c"):
    return tempfile.mkdtemp(prefix=prefix, dir=scratch_root())


def rmtree(path):
    shutil.rmtree(path, ignore_errors=True)


def cleanup_scratch():
    global _SCRATCH
    if _SCRATCH and _SCRATCH_PID == os.getpid():
        shutil.rmtree(_SCRATCH, ignore_errors=True)
        _SCRATCH = None


# --------------------------------------------------------------------------- worker


class Ctx:
    def __init__(self, mod, tier, seed, k, deadline, active_known, raise_on=None):
        self.mod = mod
        self.tier = tier
        self.seed = seed
        self.k = k
        self.deadline = deadline
        self.env = Env(active_known)
        self.raise_on = raise_on
        self.evals = 0
        self.cases = 0
        self.nontrivial = set()
        self.labels = collections.Counter()
        self.refused = 0
        self.excluded = collections.Counter()
        self.notes = collections.Counter()
        self.samples = []
        self.violations = {}  # sig -> {count, case(smallest), detail, size}
        self.harness_errors = []
        self.budget_exhausted = False
        self.best = None  # smallest failing case for raise_on

    def submit(self, case, shrinkable=True):
        if time.time() > self.deadline:
            self.budget_exhausted = True
            raise StopCollect()
        self.cases += 1
        try:
            out = _with_watchdog(lambda: self.mod.evaluate(case, self.env), case, self.mod)
        except StopCollect:
            raise
        except Exception:
            if len(self.harness_errors) < 5:
                self.harness_errors.append({"trace": traceback.format_exc()[-3000:], "case": case})
            else:
                self.harness_errors.append(None)
            return
        self.evals += out.evals
        for key in out.nontrivial:
            self.nontrivial.add(_h((case_hash(case), key)))
        self.labels.update(out.labels)
        self.refused += out.refused
        self.excluded.update(out.excluded)
        self.notes.update(out.notes)
        if out.nontrivial and len(self.samples) < 3 and self.cases >= (1, 25, 60)[len(self.samples)]:
            desc = getattr(self.mod, "describe", None)
            self.samples.append(out.sample if out.sample is not None else (desc(case) if desc else _trunc(case)))
        if out.violations:
            size = len(json.dumps(case, default=str))
            for v in out.violations:
                slot = self.violations.get(v["sig"])
                if slot is None:
                    self.violations[v["sig"]] = {
                        "count": 1,
                        "case": case,
                        "detail": v["detail"],
                        "sub": v["sub"],
                        "size": size,
                        "worker": self.k,
                        "shrinkable": shrinkable,
                    }
                else:
                    slot["count"] += 1
                    if size < slot["size"]:
                        slot.update(case=case, detail=v["detail"], sub=v["sub"], size=size, shrinkable=shrinkable)
            if self.raise_on is not None and any(v["sig"] == self.raise_on for v in out.violations):
                if self.best is None or size < self.best[0]:
                    v = [v for v in out.violations if v["sig"] == self.raise_on][0]
                    self.best = (size, case, v["detail"], v["sub"])
                raise AssertionError(self.raise_on)

    def export(self):
        return {
            "k": self.k,
            "evals": self.evals,
            "cases": self.cases,
            "nontrivial": self.nontrivial,
            "labels": self.labels,
            "refused": self.refused,
            "excluded": self.excluded,
            "notes": self.notes,
            "samples": self.samples,
            "violations": self.violations,
            "harness_errors": self.harness_errors,
            "budget_exhausted": self.budget_exhausted,
            "best": self.best,
        }


def _trunc(obj, n=400):
    if isinstance(obj, str):
        return obj if len(obj) <= n else obj[:n] + "...(%d chars)" % len(obj)
    if isinstance(obj, dict):
        return {k: _trunc(v, n) for k, v in list(obj.items())[:30]}
    if isinstance(obj, (list, tuple)):
        return [_trunc(v, n) for v in list(obj)[:30]]
    return obj


def _hyp_run(mod, ctx, n_examples, shrink):
    import hypothesis
    from hypothesis import HealthCheck, Phase, Verbosity, given, settings

    strat = mod.strategy(ctx.tier)
    phases = [Phase.generate, Phase.shrink] if shrink else [Phase.generate]

    @hypothesis.seed(ctx.seed * 1000 + ctx.k)
    @settings(
        max_examples=max(1, n_examples),
        database=None,
        deadline=None,
        derandomize=False,
        report_multiple_bugs=False,
        suppress_health_check=[HealthCheck.too_slow, HealthCheck.data_too_large, HealthCheck.large_base_example],
        phases=phases,
        verbosity=Verbosity.quiet,
        print_blob=False,
    )
    @given(strat)
    def t(case):
        ctx.submit(case)

    try:
        t()
    except StopCollect:
        ctx.budget_exhausted = True
    except AssertionError:
        if ctx.raise_on is None:
            raise


def _worker(args):
    modname, tier, seed, k, nworkers, n_examples, deadline, active_known, raise_on = args
    warnings.simplefilter("ignore")
    try:
        mod = importlib.import_module(modname)
        ctx = Ctx(mod, tier, seed, k, deadline, active_known, raise_on)
        try:
            if raise_on is None and hasattr(mod, "enumerate_cases"):
                try:
                    for case in mod.enumerate_cases(tier, k, nworkers):
                        ctx.submit(case, shrinkable=False)
                except StopCollect:
                    ctx.budget_exhausted = True
            if hasattr(mod, "strategy") and n_examples > 0 and not ctx.budget_exhausted:
                _hyp_run(mod, ctx, n_examples, shrink=raise_on is not None)
        finally:
            cleanup_scratch()
        return ctx.export()
    except BaseException:
        cleanup_scratch()
        return {"k": k, "fatal": traceback.format_exc()}


# --------------------------------------------------------------------------- known findings


def load_known(pid):
    path = os.path.join(ROOT, "known_findings.json")
    if not os.path.exists(path):
        return []
    with open(path) as f:
        data = json.load(f)
    return [e for e in data.get("findings", []) if e.get("property") == pid]


def _replay_case(mod, path):
    with open(path) as f:
        data = json.load(f)
    return data


def run_replay(mod, path, active=()):
    data = _replay_case(mod, path)
    out = mod.evaluate(data["case"], Env(active))
    sig = data.get("sig")
    hits = [v for v in out.violations if sig is None or v["sig"] == sig]
    return data, out, hits


# --------------------------------------------------------------------------- main


def main(argv):
    ap = argparse.ArgumentParser()
    ap.add_argument("prop")
    ap.add_argument("--tier", default=os.environ.get("VERIF_TIER", "quick"), choices=["quick", "thorough"])
    ap.add_argument("--replay")
    ap.add_argument("--workers", type=int, default=int(os.environ.get("VERIF_WORKERS", "16")))
    ap.add_argument("--scale", type=float, default=float(os.environ.get("VERIF_SCALE", "1")))
    ap.add_argument("--no-evidence", action="store_true")
    args = ap.parse_args(argv)
    pid = args.prop.upper()
    if pid not in PROPS:
        print("unknown property", pid)
        return 2
    warnings.simplefilter("ignore")
    import rope

    rope_file = os.path.realpath(rope.__file__)
    if not rope_file.startswith(os.path.realpath(ROPE_SRC) + os.sep):
        print("harness error: rope imported from %s, expected under %s" % (rope_file, ROPE_SRC))
        return 2
    try:
        mod = importlib.import_module(PROPS[pid])
    except Exception:
        traceback.print_exc()
        print("harness error: cannot import property module")
        return 2
    seed = int(os.environ.get("VERIF_SEED", "1") or "1")
    try:
        if args.replay:
            return _main_replay(mod, pid, args.replay)
        return _main_run(mod, pid, args, seed)
    finally:
        cleanup_scratch()


def _main_replay(mod, pid, path):
    # a replay written by a campaign is looked at the way the campaign looked at it: with the recorded findings'
    # exclusions active.  The replay of a recorded finding itself (findings/...) runs with all of them off.
    active = ()
    own = os.path.abspath(path).startswith(os.path.join(ROOT, "findings") + os.sep)
    if not own and not os.environ.get("VERIF_IGNORE_KNOWN"):
        active = sorted({e["predicate"] for e in load_known(pid) if e.get("status") == "known" and e.get("predicate")})
    data, out, hits = run_replay(mod, path, active)
    if hits:
        for v in hits:
            print("replay fails: %s :: %s" % (v["sig"], v["detail"][:500]))
        print("VIOLATION property=%s replay=%s" % (pid, path))
        return 1
    print("replay passes (%d oracle evaluations, other violations: %s)" % (out.evals, [v["sig"] for v in out.violations]))
    return 0


def _main_run(mod, pid, args, seed):
    t0 = time.time()
    tier = args.tier
    n_total, seconds = mod.BUDGET[tier]
    n_total = int(n_total * args.scale)
    seconds = seconds * args.scale
    nworkers = max(1, args.workers)
    known = load_known(pid)
    active_known = sorted({e["predicate"] for e in known if e.get("status") == "known" and e.get("predicate")})
    # development aid (never set by MANIFEST commands): switch listed exclusions off to harvest shrunk replays
    ignore = set(filter(None, os.environ.get("VERIF_IGNORE_KNOWN", "").split(",")))
    if ignore:
        active_known = [p for p in active_known if p not in ignore and "all" not in ignore]
        known = [e for e in known if e.get("replay") and os.path.exists(os.path.join(ROOT, e["replay"]))]
    exit_code = 0
    printed = []
    known_report = []
    replay_errors = []

    # 1. replay the committed findings
    for e in known:
        rp = os.path.join(ROOT, e["replay"]) if e.get("replay") else None
        if not rp or not os.path.exists(rp):
            print("harness error: finding %s has no replay file" % e.get("id"))
            return 2
        try:
            # a fixed finding is replayed with the known-finding exclusions active, so that only
            # the repaired root cause is looked at; a known finding with all of them off
            data, out, hits = run_replay(mod, rp, active_known if e.get("status") == "fixed" else ())
            # a known finding whose manifestation depends on something rope leaves to chance (entry field "attempts")
            for _ in range(int(e.get("attempts", 1)) - 1):
                if hits or e.get("status") != "known":
                    break
                data, out, hits = run_replay(mod, rp, ())
        except Exception:
            traceback.print_exc()
            print("harness error: replay of %s crashed (the campaign still runs)" % e.get("id"))
            replay_errors.append(e.get("id"))
            continue
        if e.get("status") == "known":
            if hits:
                line = "KNOWN-FINDING: property=%s %s [%s]" % (pid, e["what"], e["id"])
                print(line)
                known_report.append({"id": e["id"], "reproduces": True})
            else:
                print("note: known finding %s no longer reproduces on this tree" % e["id"])
                known_report.append({"id": e["id"], "reproduces": False})
        elif e.get("status") == "fixed":
            if hits:
                print("fixed finding %s is back: %s" % (e["id"], hits[0]["detail"][:300]))
                print("VIOLATION property=%s replay=%s" % (pid, e["replay"]))
                printed.append(rp)
                exit_code = 1
            known_report.append({"id": e["id"], "fixed": True, "reproduces": bool(hits)})

    # 2. the campaign
    deadline = time.time() + seconds
    per = -(-n_total // nworkers)
    jobs = [(PROPS[pid], tier, seed, k, nworkers, per, deadline, active_known, None) for k in range(nworkers)]
    ctx_mp = multiprocessing.get_context("fork")
    with ctx_mp.Pool(nworkers) as pool:
        results = pool.map(_worker, jobs, chunksize=1)

        fatal = [r for r in results if "fatal" in r]
        if fatal:
            print(fatal[0]["fatal"])
            print("harness error: worker died")
            return 2
        fuzz_info = None
        fuzz_seconds = float(os.environ.get("VERIF_FUZZ_SECONDS", "0") or 0) or (getattr(mod, "FUZZ_SECONDS", 0) * args.scale if tier == "thorough" else 0)
        if getattr(mod, "FUZZ_MODULES", None) and fuzz_seconds > 0:
            fuzz_results, fuzz_info = _fuzz_stage(PROPS[pid], tier, seed, nworkers, fuzz_seconds, active_known)
            results = list(results) + fuzz_results
        agg = _aggregate(results)

        # 3. shrink new buckets
        new = {}
        for sig, slot in agg["violations"].items():
            new[sig] = slot
        shrink_cap = 30 if tier == "quick" else 300
        sjobs = []
        for sig, slot in sorted(new.items())[:16]:
            if slot.get("shrinkable") and hasattr(mod, "strategy") and not os.environ.get("VERIF_NOSHRINK"):
                sjobs.append((PROPS[pid], tier, seed, slot["worker"], nworkers, per, time.time() + shrink_cap, active_known, sig))
        if sjobs:
            for job, r in zip(sjobs, pool.map(_worker, sjobs, chunksize=1)):
                if "fatal" in r or not r.get("best"):
                    continue
                size, case, detail, sub = r["best"]
                slot = new[job[-1]]
                if size <= slot["size"]:
                    slot.update(case=case, detail=detail, sub=sub, size=size, shrunk=True)

    replay_dir = os.environ.get("VERIF_REPLAY_DIR", "replays")  # mutant runs write elsewhere
    os.makedirs(os.path.join(ROOT, replay_dir, pid), exist_ok=True)
    vio_report = []
    for sig, slot in sorted(new.items()):
        name = hashlib.sha1((sig + json.dumps(slot["case"], sort_keys=True, default=str)).encode()).hexdigest()[:12]
        path = os.path.join(replay_dir, pid, name + ".json")
        with open(os.path.join(ROOT, path), "w") as f:
            json.dump(
                {"property": pid, "sig": sig, "detail": slot["detail"], "sub": slot["sub"], "case": slot["case"], "seed": seed, "tier": tier},
                f,
                indent=1,
                default=str,
            )
        print("violation bucket %r seen %d times: %s" % (sig, slot["count"], slot["detail"][:600].replace("\n", "\\n")))
        print("VIOLATION property=%s replay=%s" % (pid, path))
        vio_report.append({"sig": sig, "count": slot["count"], "replay": path})
        exit_code = 1

    nerr = len(agg["harness_errors"])
    if nerr:
        for he in [h for h in agg["harness_errors"] if h][:3]:
            print("harness error in evaluate():\n" + he["trace"])
            print("  case:", json.dumps(_trunc(he["case"]), default=str)[:1500])
        if exit_code == 0:
            exit_code = 2
    if replay_errors and exit_code == 0:
        exit_code = 2

    wall = time.time() - t0
    distinct = len(agg["nontrivial"])
    evidence = {
        "property_id": pid,
        "tier": tier,
        "seed": seed,
        "level": mod.LEVEL,
        "coverage": {
            "evaluations": agg["evals"],
            "cases_generated": agg["cases"],
            "distinct_nontrivial": distinct,
            "rule": mod.RULE,
            "samples": agg["samples"][:8],
            "label_histogram": dict(sorted(agg["labels"].items())),
            "refused": agg["refused"],
            "excluded_known": dict(agg["excluded"]),
            "notes": dict(sorted(agg["notes"].items())),
            "budget_exhausted_workers": agg["budget_exhausted"],
            "harness_errors": nerr,
            "known_findings": known_report,
            "violation_buckets": vio_report,
            "workers": nworkers,
            "technique": getattr(mod, "TECHNIQUE", ""),
        },
        "assumptions": list(getattr(mod, "ASSUMPTIONS", [])),
        "wall_s": round(wall, 2),
        "violations": len(vio_report) + len(printed),
    }
    if getattr(mod, "EXHAUSTIVE_INNER", None):
        evidence["coverage"]["exhaustive_inner"] = mod.EXHAUSTIVE_INNER
    if fuzz_info is not None:
        evidence["coverage"]["coverage_guided_stage"] = fuzz_info
    if hasattr(mod, "finish_evidence"):
        mod.finish_evidence(evidence, agg, tier)
    if not args.no_evidence:
        os.makedirs(os.path.join(ROOT, "evidence"), exist_ok=True)
        with open(os.path.join(ROOT, "evidence", pid + ".json"), "w") as f:
            json.dump(evidence, f, indent=1, default=str)
    print(
        "%s %s seed=%d: %d cases, %d oracle evaluations, %d distinct non-trivial, %d refused, excluded_known=%s, %d violation buckets, %.1fs%s"
        % (pid, tier, seed, agg["cases"], agg["evals"], distinct, agg["refused"], dict(agg["excluded"]), len(vio_report), wall,
           " (time budget reached in %d workers)" % agg["budget_exhausted"] if agg["budget_exhausted"] else "")
    )
    if exit_code == 0 and (agg["evals"] < 1 or distinct < 2):
        print("harness error: vacuous run (evaluations=%d distinct_nontrivial=%d)" % (agg["evals"], distinct))
        return 2
    return exit_code


def _fuzz_stage(modname, tier, seed, nproc, seconds, active_known):
    """coverage-guided stage (atheris / libFuzzer driving the property's strategy through fuzz_one_input, rope's modules
    instrumented): nproc independent processes with different seeds and empty corpora; their outcomes are merged like the
    Hypothesis workers'.  A process that dies or cannot import atheris contributes nothing (recorded, never a violation)."""
    import pickle
    import subprocess
    import sys

    outdir = fresh_dir("fuzz")
    procs = []
    env = dict(os.environ)
    for k in range(nproc):
        outfile = os.path.join(outdir, "w%d.pkl" % k)
        cmd = [sys.executable, "-B", "-m", "vlib.fuzzworker", modname, tier, str(seed), str(k), str(seconds), outfile, json.dumps(list(active_known))]
        procs.append((outfile, subprocess.Popen(cmd, cwd=ROOT, env=env, stdout=subprocess.DEVNULL, stderr=subprocess.DEVNULL)))
    results, execs, dead = [], 0, 0
    for outfile, pr in procs:
        try:
            pr.wait(timeout=seconds + 300)
        except subprocess.TimeoutExpired:
            pr.kill()
        try:
            with open(outfile, "rb") as f:
                r = pickle.load(f)
            execs += r.pop("fuzz_execs", 0)
            results.append(r)
        except Exception:
            dead += 1
    rmtree(outdir)
    return results, {"tool": "atheris (libFuzzer) + hypothesis.fuzz_one_input", "processes": nproc, "seconds_each": seconds, "executions": execs, "processes_without_result": dead}


def _aggregate(results):
    agg = {
        "evals": 0,
        "cases": 0,
        "nontrivial": set(),
        "labels": collections.Counter(),
        "refused": 0,
        "excluded": collections.Counter(),
        "notes": collections.Counter(),
        "samples": [],
        "violations": {},
        "harness_errors": [],
        "budget_exhausted": 0,
    }
    for r in results:
        agg["evals"] += r["evals"]
        agg["cases"] += r["cases"]
        agg["nontrivial"] |= r["nontrivial"]
        agg["labels"].update(r["labels"])
        agg["refused"] += r["refused"]
        agg["excluded"].update(r["excluded"])
        agg["notes"].update(r["notes"])
        if r["samples"]:
            agg["samples"].append(r["samples"][0])
        agg["harness_errors"].extend(r["harness_errors"])
        agg["budget_exhausted"] += 1 if r["budget_exhausted"] else 0
        for sig, slot in r["violations"].items():
            cur = agg["violations"].get(sig)
            if cur is None:
                agg["violations"][sig] = dict(slot)
            else:
                cur["count"] += slot["count"]
                if slot["size"] < cur["size"]:
                    cnt = cur["count"]
                    cur.update(slot)
                    cur["count"] = cnt
    for r in results:
        for s in r["samples"][1:]:
            if len(agg["samples"]) < 8:
                agg["samples"].append(s)
    return agg
