"""R-SCOPE: reference name resolver over ast (validated against symtable by tools/selftest_rscope.py).

Scope tree (module, function, lambda, class, comprehension), names bound per scope, LEGB resolution with
the class-scope skip, global / nonlocal, line extents from lineno / end_lineno.
"""
import ast


class RScope:
    def __init__(self, kind, node, parent):
        self.kind = kind  # module | function | lambda | class | comp
        self.node = node
        self.parent = parent
        self.children = []
        self.bound = set()
        self.annotated_only = set()
        self.globals = set()
        self.nonlocals = set()
        self.uses = []  # (name, node) Name loads evaluated in this scope
        self.body_stmts = []  # statements directly in this scope's body (module / function / class)
        if parent is not None:
            parent.children.append(self)

    @property
    def name(self):
        return getattr(self.node, "name", "<%s>" % self.kind)

    @property
    def start(self):
        return getattr(self.node, "lineno", 1)

    @property
    def end(self):
        return getattr(self.node, "end_lineno", None)

    def walk(self):
        yield self
        for c in self.children:
            yield from c.walk()


class _Builder(ast.NodeVisitor):
    def __init__(self):
        self.cur = None
        self.all_names = []  # (ast.Name node, scope that evaluates it)

    def build(self, tree):
        self.cur = RScope("module", tree, None)
        root = self.cur
        root.body_stmts = list(tree.body)
        for st in tree.body:
            self.visit(st)
        return root

    # ---- helpers
    def bind(self, name, scope=None):
        s = scope or self.cur
        if name in s.globals:
            root = s
            while root.parent is not None:
                root = root.parent
            # bound at run time in the module's namespace, but not a binding of the module's symbol table
            root.global_assigned = getattr(root, "global_assigned", set()) | {name}
            return
        if name in s.nonlocals:
            return
        s.bound.add(name)

    def binding_scope_for_walrus(self):
        s = self.cur
        while s.kind == "comp":
            s = s.parent
        return s

    def visit_args(self, args, into):
        for a in args.posonlyargs + args.args + args.kwonlyargs:
            into.bound.add(a.arg)
        if args.vararg:
            into.bound.add(args.vararg.arg)
        if args.kwarg:
            into.bound.add(args.kwarg.arg)

    def visit_outer_parts_of_args(self, args):
        for d in args.defaults + [d for d in args.kw_defaults if d is not None]:
            self.visit(d)
        for a in args.posonlyargs + args.args + args.kwonlyargs + [x for x in (args.vararg, args.kwarg) if x]:
            if a.annotation is not None:
                self.visit(a.annotation)

    # ---- scopes
    def _function(self, node):
        self.bind(node.name)
        for d in node.decorator_list:
            self.visit(d)
        self.visit_outer_parts_of_args(node.args)
        if node.returns is not None:
            self.visit(node.returns)
        outer = self.cur
        self.cur = RScope("function", node, outer)
        self.visit_args(node.args, self.cur)
        self.cur.body_stmts = list(node.body)
        for st in node.body:
            self.visit(st)
        self.cur = outer

    visit_FunctionDef = _function
    visit_AsyncFunctionDef = _function

    def visit_Lambda(self, node):
        self.visit_outer_parts_of_args(node.args)
        outer = self.cur
        self.cur = RScope("lambda", node, outer)
        self.visit_args(node.args, self.cur)
        self.visit(node.body)
        self.cur = outer

    def visit_ClassDef(self, node):
        self.bind(node.name)
        for d in node.decorator_list:
            self.visit(d)
        for b in node.bases:
            self.visit(b)
        for k in node.keywords:
            self.visit(k.value)
        outer = self.cur
        self.cur = RScope("class", node, outer)
        self.cur.body_stmts = list(node.body)
        for st in node.body:
            self.visit(st)
        self.cur = outer

    def _comp(self, node, elts):
        gens = node.generators
        self.visit(gens[0].iter)
        outer = self.cur
        self.cur = RScope("comp", node, outer)
        for i, g in enumerate(gens):
            self.visit(g.target)
            if i > 0:
                self.visit(g.iter)
            for c in g.ifs:
                self.visit(c)
        for e in elts:
            self.visit(e)
        self.cur = outer

    def visit_ListComp(self, node):
        self._comp(node, [node.elt])

    visit_SetComp = visit_ListComp
    visit_GeneratorExp = visit_ListComp

    def visit_DictComp(self, node):
        self._comp(node, [node.key, node.value])

    # ---- bindings
    def visit_AugAssign(self, node):
        if isinstance(node.target, ast.Name):
            self.cur.weak = getattr(self.cur, "weak", set()) | {node.target.id}
            self.bind(node.target.id)
        else:
            self.visit(node.target)
        self.visit(node.value)

    def visit_Name(self, node):
        self.all_names.append((node, self.cur))
        if isinstance(node.ctx, ast.Del):
            self.cur.weak = getattr(self.cur, "weak", set()) | {node.id}
            self.bind(node.id)
        elif isinstance(node.ctx, ast.Store):
            self.cur.strong = getattr(self.cur, "strong", set()) | {node.id}
            self.bind(node.id)
        else:
            self.cur.uses.append((node.id, node))

    def visit_NamedExpr(self, node):
        self.visit(node.value)
        s = self.binding_scope_for_walrus()
        self.bind(node.target.id, s)

    def visit_AnnAssign(self, node):
        self.visit(node.annotation)
        if node.value is not None:
            self.visit(node.value)
            self.visit(node.target)
        elif isinstance(node.target, ast.Name):
            if node.target.id not in self.cur.bound:
                self.cur.annotated_only.add(node.target.id)
        else:
            self.visit(node.target)

    def visit_Global(self, node):
        self.cur.globals.update(node.names)

    def visit_Nonlocal(self, node):
        self.cur.nonlocals.update(node.names)

    def visit_Import(self, node):
        for a in node.names:
            self.bind(a.asname or a.name.split(".")[0])

    def visit_ImportFrom(self, node):
        for a in node.names:
            if a.name != "*":
                self.bind(a.asname or a.name)

    def visit_ExceptHandler(self, node):
        if node.type is not None:
            self.visit(node.type)
        if node.name:
            self.bind(node.name)
        for st in node.body:
            self.visit(st)

    def visit_MatchAs(self, node):
        if node.pattern is not None:
            self.visit(node.pattern)
        if node.name:
            self.bind(node.name)

    def visit_MatchStar(self, node):
        if node.name:
            self.bind(node.name)

    def visit_MatchMapping(self, node):
        for k in node.keys:
            self.visit(k)
        for p in node.patterns:
            self.visit(p)
        if node.rest:
            self.bind(node.rest)


def build(tree):
    b = _Builder()
    root = b.build(tree)
    root.all_names = b.all_names
    # global / nonlocal declared after a binding in source order is a SyntaxError, so order is irrelevant;
    # names declared global in a function are bound at module level when assigned there
    for s in root.walk():
        pass
    return root


def visible_names(scope):
    """names a bare identifier can refer to from `scope` (LEGB with the class-scope skip), builtins excluded"""
    out = set()
    s = scope
    first = True
    while s is not None:
        if first or s.kind != "class":
            out |= s.bound | s.annotated_only | s.globals | s.nonlocals
        first = False
        s = s.parent
    return out


def resolve(scope, name):
    """the RScope whose binding a use of `name` evaluated in `scope` sees; 'builtin-or-unbound' otherwise"""
    s = scope
    first = True
    while s is not None:
        if first or s.kind != "class":
            if name in s.globals:
                root = s
                while root.parent is not None:
                    root = root.parent
                return root if name in root.bound else "builtin-or-unbound"
            if name in s.nonlocals:
                p = s.parent
                while p is not None:
                    if p.kind in ("function", "lambda", "comp") and name in p.bound:
                        return p
                    p = p.parent
                return "builtin-or-unbound"
            if name in s.bound or name in s.annotated_only:
                return s
        first = False
        s = s.parent
    return "builtin-or-unbound"
