"""Coverage-guided stage (thorough tier of the text properties): one libFuzzer process driving the property's
Hypothesis strategy through `fuzz_one_input`, with rope's scanner / tree modules instrumented by atheris.

usage (spawned by vlib.core): python -B -m vlib.fuzzworker <props module> <tier> <seed> <k> <seconds> <outfile> <known json>

The semantic oracle sits inside the target: every decoded case goes through the property's evaluate() exactly as in
the Hypothesis campaign (Ctx.submit collects violations, it never raises), so libFuzzer is only the search strategy.
libFuzzer ends the process without running atexit handlers: the collected outcome is pickled to <outfile> every 200
cases and once more when the time is up (the target stops doing work 3 s before libFuzzer's own limit)."""
import importlib
import json
import os
import pickle
import sys
import time
import warnings


def main(argv):
    modname, tier, seed, k, seconds, outfile, known = argv[1], argv[2], int(argv[3]), int(argv[4]), float(argv[5]), argv[6], json.loads(argv[7])
    warnings.simplefilter("ignore")
    import atheris

    from vlib import core

    mod = importlib.import_module(modname)
    with atheris.instrument_imports(include=["rope"], enable_loader_override=False):
        for name in getattr(mod, "FUZZ_MODULES", ()):
            importlib.import_module(name)

    from hypothesis import HealthCheck, Verbosity, given, settings

    t_end = time.time() + seconds
    ctx = core.Ctx(mod, tier, seed, 1000 + k, t_end + 3600, known)
    state = {"n": 0, "done": False}

    def flush():
        tmp = outfile + ".tmp"
        data = ctx.export()
        data["fuzz_execs"] = state["n"]
        with open(tmp, "wb") as f:
            pickle.dump(data, f)
        os.replace(tmp, outfile)

    @settings(database=None, deadline=None, suppress_health_check=list(HealthCheck), verbosity=Verbosity.quiet, print_blob=False)
    @given(mod.strategy(tier))
    def target(case):
        if time.time() > t_end:
            if not state["done"]:
                state["done"] = True
                flush()
            return
        state["n"] += 1
        ctx.submit(case, shrinkable=False)
        if state["n"] % 200 == 0:
            flush()

    corpus = outfile + ".corpus"  # removed by the parent together with the outcome file
    os.makedirs(corpus, exist_ok=True)
    args = [
        "fuzz",
        "-seed=%d" % (seed * 1000 + k + 1),
        "-max_total_time=%d" % int(seconds + 3),
        "-max_len=%d" % int(getattr(mod, "FUZZ_MAX_LEN", 8192)),
        "-rss_limit_mb=6000",
        "-timeout=120",
        "-print_final_stats=0",
        "-verbosity=0",
        corpus,
    ]
    atheris.Setup(args, target.hypothesis.fuzz_one_input)
    flush()
    atheris.Fuzz()


if __name__ == "__main__":
    main(sys.argv)
