"""G-FUNC: single modules with a host function / method whose body has data flow worth extracting.

Int-only, total, deterministic: nested if/else, bounded for/while loops with loop-carried variables,
variables written on one branch only (initialised before), augmented assignment, comprehensions,
`global` writes, self.attr reads/writes, early returns, break/continue.  The module calls the host with
several argument tuples and prints the results (and the global, and the attribute) so every effect of
the body is observable.
"""
from hypothesis import strategies as st

VARS = ["a", "b", "c", "d", "e"]


class FG:
    def __init__(self, draw):
        self.draw = draw
        self.flags = set(draw(st.sets(st.sampled_from(FFLAGS), max_size=len(FFLAGS))))
        self.lines = []
        self.method = self.flag("method")
        self.counter = 0

    def i(self, a, b):
        return self.draw(st.integers(a, b))

    def b(self, n=1, d=2):
        return self.draw(st.integers(0, d - 1)) < n

    def c(self, seq):
        return self.draw(st.sampled_from(list(seq)))

    def flag(self, f):
        return f in self.flags

    # expressions over currently defined names
    def atom(self, defined):
        r = self.i(0, 5)
        if r <= 2 and defined:
            return self.c(sorted(defined))
        if r == 3 and self.method:
            return "self.t"
        if r == 4:
            return self.c(["G", "helper(%s, %d)" % (self.c(sorted(defined)) if defined else "1", self.i(0, 3))])
        return str(self.i(0, 9))

    def expr(self, defined, depth=2):
        if depth <= 0 or self.b(1, 3):
            return self.atom(defined)
        r = self.i(0, 6)
        if r <= 3:
            return "%s %s %s" % (self.expr(defined, depth - 1), self.c(["+", "-", "*"]), self.expr(defined, depth - 1))
        if r == 4:
            return "(%s if %s else %s)" % (self.expr(defined, depth - 1), self.cond(defined), self.expr(defined, depth - 1))
        if r == 5 and self.flag("comprehension"):
            v = self.c(["i", "j"] + ([self.c(sorted(defined))] if defined and self.flag("comp_shadow") else []))
            return "sum([%s * %s for %s in range(%d)])" % (v, self.atom(defined - {v}), v, self.i(1, 3))
        return "(%s)" % self.expr(defined, depth - 1)

    def cond(self, defined):
        c = "%s %s %s" % (self.expr(defined, 1), self.c(["<", ">", "==", "!=", "<=", ">="]), self.expr(defined, 1))
        if self.b(1, 4):
            c = "%s %s %s" % (c, self.c(["and", "or"]), "%s %s %s" % (self.atom(defined), self.c(["<", ">"]), self.atom(defined)))
        return c

    def block(self, indent, defined, depth, in_loop):
        """emits 1-4 statements; returns the set of names DEFINITELY defined afterwards"""
        n = self.i(1, 4)
        for _ in range(n):
            defined = self.stmt(indent, defined, depth, in_loop)
        return defined

    def inner_loop(self, indent, defined, depth):
        """with the loop_else flag: a loop nested directly in a loop body, so that its else clause can address the outer loop"""
        if self.flag("loop_else") and self.b(1, 2):
            it = self.c(["j", "k"])
            self.lines.append("%sfor %s in range(%d):" % ("    " * indent, it, self.i(1, 2)))
            self.block(indent + 1, defined | {it}, max(depth - 1, 0), True)
            self.loop_else(indent, defined, max(depth, 1), True)

    def loop_else(self, indent, defined, depth, in_loop):
        """optional else clause of a loop; a break/continue in it belongs to the ENCLOSING loop (in_loop is the outer one's)"""
        if self.flag("loop_else") and self.b(2, 3):
            self.lines.append("%selse:" % ("    " * indent))
            if in_loop and self.flag("break_continue") and self.b(3, 4):
                self.lines.append("%s    if %s:" % ("    " * indent, self.cond(defined)))
                self.lines.append("%s        %s" % ("    " * indent, self.c(["break", "continue"])))
            self.block(indent + 1, set(defined), depth - 1, in_loop)

    def stmt(self, indent, defined, depth, in_loop):
        r = self.i(0, 13)
        pad = "    " * indent
        if r <= 3 or depth <= 0:
            v = self.c(VARS)
            self.lines.append("%s%s = %s" % (pad, v, self.expr(defined)))
            return defined | {v}
        if r == 4 and defined - {n for n in defined if n[0] == "n"} - ({"x"} if self.flag("planted") else set()):
            v = self.c(sorted(n for n in defined if n[0] != "n" and not (n == "x" and self.flag("planted"))))  # never the loop counters n0, n1 ...
            self.lines.append("%s%s %s= %s" % (pad, v, self.c(["+", "-", "*"]), self.expr(defined, 1)))
            return defined
        if r <= 6:
            self.lines.append("%sif %s:" % (pad, self.cond(defined)))
            d1 = self.block(indent + 1, set(defined), depth - 1, in_loop)
            d2 = set(defined)
            if self.b(2, 3):
                self.lines.append("%selse:" % pad)
                d2 = self.block(indent + 1, set(defined), depth - 1, in_loop)
            return d1 & d2
        if r == 7:
            it = self.c(["i", "j", "k"])
            self.lines.append("%sfor %s in range(%d):" % (pad, it, self.i(1, 3)))
            self.block(indent + 1, defined | {it}, depth - 1, True)
            self.inner_loop(indent + 1, defined | {it}, depth - 1)
            self.loop_else(indent, defined, depth, in_loop)
            return defined  # the loop may run zero times for the purpose of definedness? range>=1 but keep conservative
        if r == 8 and self.flag("while") and defined:
            cnt = "n%d" % self.counter
            self.counter += 1
            self.lines.append("%s%s = %d" % (pad, cnt, self.i(1, 3)))
            self.lines.append("%swhile %s > 0:" % (pad, cnt))
            self.lines.append("%s    %s -= 1" % (pad, cnt))
            self.block(indent + 1, defined | {cnt}, depth - 1, True)
            self.inner_loop(indent + 1, defined | {cnt}, depth - 1)
            self.loop_else(indent, defined | {cnt}, depth, in_loop)
            return defined | {cnt}
        if r == 9 and self.flag("global_write"):
            self.lines.append("%sG = G + %s" % (pad, self.atom(defined)))
            return defined
        if r == 10 and self.method:
            self.lines.append("%sself.t %s %s" % (pad, self.c(["=", "+=", "-="]), self.expr(defined, 1)))
            return defined
        if r == 11 and in_loop and self.flag("break_continue"):
            self.lines.append("%sif %s:" % (pad, self.cond(defined)))
            self.lines.append("%s    %s" % (pad, self.c(["break", "continue"])))
            return defined
        if r == 12 and self.flag("early_return") and defined:
            self.lines.append("%sif %s:" % (pad, self.cond(defined)))
            self.lines.append("%s    return %s" % (pad, self.expr(defined, 1)))
            return defined
        if r == 13 and self.flag("print_stmt"):
            self.lines.append("%sprint(%s)" % (pad, self.expr(defined, 1)))
            return defined
        v = self.c(VARS)
        self.lines.append("%s%s = %s" % (pad, v, self.expr(defined, 1)))
        return defined | {v}

    def module(self):
        nparams = self.i(1, 3)
        params = ["x", "y", "z"][:nparams]
        head = ["G = 3", "def helper(p, q):", "    return p * 2 + q"]
        if self.flag("docstring"):
            head.insert(0, '"""module docstring mentioning a, b and G"""')
        ind = 1
        if self.method:
            head += ["class K:", "    def __init__(self):", "        self.t = 2"]
            if self.flag("planted"):
                head += ["    @classmethod", "    def twin(cls, %s):" % params[0], "        return %s * 3 + 1" % params[0]]
            head += ["    def host(self, %s):" % ", ".join(params)]
            ind = 2
        else:
            head += ["def host(%s):" % ", ".join(params)]
        self.lines = []
        pad = "    " * ind
        if self.flag("global_write"):
            self.lines.append(pad + "global G")
        defined = set(params)
        # initialise every variable first so that no path reads an unbound name
        for v in VARS:
            if self.b(2, 3):
                self.lines.append("%s%s = %s" % (pad, v, self.expr(defined, 1)))
                defined.add(v)
        for v in VARS:
            if v not in defined:
                self.lines.append("%s%s = %d" % (pad, v, self.i(0, 5)))
                defined.add(v)
        self.block(ind, defined, 2, False)
        self.block(ind, defined, 2, False)
        if self.flag("try_return"):
            # a try statement whose body ends in the region's only return and whose handler falls through: a region that ends
            # with it cannot be extracted as "return extracted(...)" (the handler path must reach the code behind it)
            self.lines.append("%stry:" % pad)
            # (the raise comes before any write: a region that writes and then raises would hand the handler a stale value
            # after ANY extraction - outside the total-program fragment the behavioural oracle is stated for)
            self.lines.append("%s    if %s > 2:" % (pad, params[0]))
            self.lines.append("%s        raise ValueError(a)" % pad)
            self.lines.append("%s    a = helper(a, 1)" % pad)
            if self.b(2, 3):
                self.lines.append("%s    return a + b" % pad)
            self.lines.append("%sexcept ValueError:" % pad)
            self.lines.append("%s    b = b + 1" % pad)
            self.lines.append("%sc = c + b" % pad)
        if self.flag("for_prebound"):
            # a loop whose target has a value before the loop, may run zero times, and is read afterwards
            self.lines.append("%si = 7" % pad)
            self.lines.append("%sd = d + 1" % pad)
            self.lines.append("%sfor i in range(%s - 3):" % (pad, params[0]))
            self.lines.append("%s    b = b + i" % pad)
            self.lines.append("%sc = c + i" % pad)
        if self.flag("planted"):
            # the same expression over a never-reassigned parameter at several places: after a nested compound statement
            # inside a block, and again outside that block (what similar=True has to treat as one value)
            e_ = "%s * 3 + 1" % params[0]
            self.lines.append("%sif %s:" % (pad, self.cond(defined)))
            self.lines.append("%s    if %s:" % (pad, self.cond(defined)))
            self.lines.append("%s        b = 1" % pad)
            self.lines.append("%s    c = %s" % (pad, e_))
            self.lines.append("%sd = %s" % (pad, e_))
        self.lines.append("%sreturn %s" % (pad, " + ".join(sorted(self.c([["a", "b"], ["a", "b", "c"], ["a", "b", "c", "d", "e"], ["e"]])))))
        body = list(self.lines)
        tail = []
        for _ in range(self.i(2, 4)):
            args = ", ".join(str(self.i(-2, 6)) for _ in params)
            if self.method:
                tail.append("o = K()")
                tail.append("print(o.host(%s), o.t, G)" % args)
                if self.flag("planted"):
                    tail.append("print(K.twin(2))")
            else:
                tail.append("print(host(%s), G)" % args)
        src = "\n".join(head + body + tail) + "\n"
        return {
            "src": src,
            "host_first_line": len(head),  # 1-based line number of the header
            "body_lines": [len(head) + 1, len(head) + len(body)],
            "method": self.method,
            "flags": sorted(self.flags),
        }


FFLAGS = ["method", "comprehension", "comp_shadow", "while", "global_write", "break_continue", "early_return", "print_stmt", "docstring", "loop_else", "planted", "try_return", "for_prebound"]


@st.composite
def modules(draw):
    return FG(draw).module()
