"""C17 - the remaining class-level refactorings preserve behaviour or are refused.

Dedicated generator: lib.py with a class (field read / written / augmented-written through self, a method with a local), a
plain function with a short body, instances and uses in two client modules in drawn shapes; the five refactorings
EncapsulateField, IntroduceFactory (global_factory in {F,T}), MethodObject, LocalToField, UseFunction.
Oracle: refusal => untouched; else every module compiles and imports on its own, main prints the same; for encapsulate no
direct access to the field remains outside the accessors, for factory no direct constructor call remains outside the factory.
"""
import io
import tokenize

from hypothesis import strategies as st

from vlib import core, fsmodel, runner

PID = "C17"
LEVEL = "exploration"
TECHNIQUE = "metamorphic testing: refactor then import-every-module and run (Hypothesis: usage shapes x client modules x 5 refactorings), plus no-direct-access / no-direct-constructor checks"
RULE = (
    "class with a field used as read / write / augmented write / in expressions through self and through instances in 2 client "
    "modules (qualified and from-imported), constructor calls in every module, a function whose body is planted again in "
    "clients (UseFunction), a method local (LocalToField); refactoring drawn from 5 (+ global_factory flag); non-trivial = "
    "accepted refactoring that changed >= 2 modules or rewrote >= 2 usage shapes; distinct by case hash"
    "; client files may end in a field write without final newline; MethodObject on a function nested in a method; the class inside a module-level try/if; one-line / last-in-file functions for UseFunction"
)
ASSUMPTIONS = [
    "int-valued, total programs: equal stdout and exception class is behavioural equality",
]
BUDGET = {"quick": (30000, 240), "thorough": (300000, 2700)}

USES = ["read", "write", "aug", "expr", "read_twice", "write_expr", "tuple_write", "del_like_noop"]


@st.composite
def cases(draw):
    return {
        "refactoring": draw(st.sampled_from(["encapsulate", "encapsulate", "factory", "factory_global", "method_object", "local_to_field", "use_function"])),
        "uses": [[draw(st.sampled_from(USES)), draw(st.sampled_from(["lib", "use", "use2"])), draw(st.booleans())] for _ in range(draw(st.integers(2, 6)))],
        "import_style": draw(st.sampled_from(["module", "from", "module_as"])),
        "self_aug": draw(st.booleans()),
        "self_read_in_expr": draw(st.booleans()),
        "subclass": draw(st.integers(0, 3)) == 0,
        "body": draw(st.sampled_from(["a * 2 + b", "a + b", "(a - b) * 3", "a * a"])),
        "planted": [[draw(st.sampled_from(["lib", "use", "use2"])), draw(st.sampled_from(["3", "k", "(k + 1)"])), draw(st.sampled_from(["4", "k"]))] for _ in range(draw(st.integers(1, 3)))],
        "body_has_local": draw(st.booleans()),
        "query": draw(st.sampled_from(["def", "use"])),
        # layout of the client modules' end: a field write as the very last line, without a final newline
        "tail": draw(st.sampled_from(["newline", "newline", "no_newline", "write_no_newline", "aug_write_no_newline"])),
        # MethodObject on a function nested in a method, with class members following that method
        "nested_target": draw(st.booleans()),
        "closure": draw(st.booleans()),
        # the class sits inside a module-level compound statement (try / if): indented, yet its scope's parent is the module
        "class_in_block": draw(st.sampled_from([None, None, "try", "if"])),
        # the function UseFunction works on is a one-liner / the last thing of a file without final newline
        "fn_layout": draw(st.sampled_from(["normal", "normal", "one_line", "last_no_newline"])),
    }


@st.composite
def text_cases(draw):
    """two shapes the main generator does not produce: (a) UseFunction on a procedure with a bare `return` (an early exit, or
    the last statement) while a client contains the matching fall-through code; (b) MethodObject on a function whose
    parameter names also occur inside string literals of its body (messages, dictionary keys, format strings)"""
    kind = draw(st.sampled_from(["use_function_procedure", "method_object_strings"]))
    pn = draw(st.sampled_from(["count", "n", "value"]))
    if kind == "use_function_procedure":
        shape = draw(st.sampled_from(["early_guard", "early_in_loop", "trailing"]))
        if shape == "early_guard":
            fn = "def report(%s):\n    if %s <= 0:\n        return\n    print('value', %s)\n" % (pn, pn, pn)
            client = "    if v <= 0:\n        pass\n    print('value', v)\n"
        elif shape == "early_in_loop":
            fn = "def report(%s):\n    for i in range(%s):\n        if i:\n            return\n        print('step', i)\n    print('done', %s)\n" % (pn, pn, pn)
            client = "    for i in range(v):\n        if i:\n            pass\n        print('step', i)\n    print('done', v)\n"
        else:
            fn = "def report(%s):\n    print('value', %s)\n    return\n" % (pn, pn)
            client = "    print('value', v)\n    pass\n"
        style = draw(st.sampled_from(["import lib\n", "from lib import report\n"]))
        files = {"lib.py": fn + "report(3)\n", "use.py": style + "for v in (3, -2, 0, 5):\n" + client, "main.py": "import lib\nimport use\n"}
        return {"text_case": kind, "files": files, "target": "report"}
    msg = draw(st.sampled_from(["'%s must not be negative'" % pn, "f'{%s} is the %s'" % (pn, pn), "'%s'" % pn]))
    fn = "def describe(%s, label):\n    if %s < 0:\n        raise ValueError(%s)\n    info = {'%s': %s, 'label': '%s of %%s' %% label}\n    return sorted(info.items()), %s\n" % (pn, pn, msg, pn, pn, pn, msg)
    files = {"lib.py": fn + "print(describe(2, 'x'))\n", "use.py": "import lib\nprint(lib.describe(5, 'y')[0][0][0])\ntry:\n    lib.describe(-1, 'z')\nexcept ValueError as e:\n    print(e)\n", "main.py": "import lib\nimport use\n"}
    return {"text_case": kind, "files": files, "target": "describe"}


def _evaluate_text(case, env):
    from rope.base import exceptions as rex
    from rope.base.project import Project
    from rope.refactor.method_object import MethodObject
    from rope.refactor.usefunction import UseFunction

    from props.c05_move import _apply, _show as show5

    out = core.Outcome()
    files = case["files"]
    base = runner.run(files, "main.py")
    if base[1]:
        raise core.HarnessError("generated project raises %s\n%s" % (base[1], runner.LAST_TB))
    out.labels["kind:" + case["text_case"]] += 1
    root = core.fresh_dir("c17t")
    fsmodel.write_tree(root, files)
    project = Project(root, ropefolder=None)
    try:
        off = files["lib.py"].index("def " + case["target"]) + 4
        out.evals += 1
        try:
            if case["text_case"] == "use_function_procedure":
                changes = UseFunction(project, project.get_file("lib.py"), off).get_changes()
            else:
                changes = MethodObject(project, project.get_file("lib.py"), off).get_changes("_Describe")
        except rex.RopeError:
            out.refused += 1
            out.labels["refused:" + case["text_case"]] += 1
            return out
        except Exception as e:
            out.notes["crashed:%s (see C09)" % type(e).__name__] += 1
            return out
        new_files, moves = _apply(files, changes)
        where = "%s\n%s" % (case["text_case"], show5(files, new_files, moves))
        bad = runner.compiles(new_files)
        if bad:
            out.violation("C17:%s:does_not_compile" % case["text_case"], "%s\n%s" % (bad[0], where))
            return out
        got = runner.run(new_files, "main.py")
        if got != base:
            out.violation("C17:%s:behaviour%s" % (case["text_case"], ":" + got[1] if got[1] else ""), "output %r/%s -> %r/%s\n%s" % (base[0][-160:], base[1], got[0][-160:], got[1], where))
            return out
        if new_files != files:
            out.nontrivial.add(("t", case["text_case"]))
    finally:
        project.close()
        core.rmtree(root)
    return out


def strategy(tier):
    return st.one_of(*([cases()] * 12 + [text_cases()]))


def render(case):
    body = case["body"]
    fn = "def compute(a, b):\n"
    if case["body_has_local"]:
        fn += "    t = %s\n    return t\n" % body
    else:
        fn += "    return %s\n" % body
    layout = case.get("fn_layout", "normal") if case["refactoring"] == "use_function" else "normal"
    fn_module = None
    if layout == "one_line" and not case["body_has_local"]:
        fn = "def compute(a, b): return %s\n" % body
    if layout == "last_no_newline":
        fn_module = fn.rstrip("\n")  # the function ends its own module, which has no final newline
        fn = "from fn import compute\n"
    lib = "k = 2\n" + fn
    lib += "class Box:\n    def __init__(self, v):\n        self.val = v\n        self.other = 1\n"
    lib += "    def bump(self, d):\n"
    lib += ("        self.val %s d\n" % ["+=", "-=", "*="][len(case["uses"]) % 3]) if case["self_aug"] else "        self.val = self.val + d\n"
    lib += "        return self.val\n"
    lib += "    def scale(self, m):\n        tmp = self.val * m\n"
    if case.get("closure"):
        # the method's local is also read as a free variable of a function nested in the method
        lib += "        def inner(k):\n            return tmp + k\n"
        lib += "        return inner(m) + (self.val - self.other)\n" if case["self_read_in_expr"] else "        return inner(m)\n"
    else:
        lib += "        return tmp + m + (self.val - self.other)\n" if case["self_read_in_expr"] else "        return tmp + m\n"
    if case["subclass"]:
        lib += "class SubBox(Box):\n    def bump(self, d):\n        self.val = self.val - d\n        return self.val\n"
    blk = case.get("class_in_block")
    if blk and case["refactoring"] in ("factory", "factory_global") and not case["subclass"]:
        i = lib.index("class Box:")
        cls_text = "".join("    " + ln + "\n" for ln in lib[i:].rstrip("\n").split("\n"))
        if blk == "try":
            lib = lib[:i] + "try:\n" + cls_text + "except ImportError:\n    Box = None\n"
        else:
            lib = lib[:i] + "if k:\n" + cls_text + "else:\n    Box = None\n"
    files = {"lib.py": lib}
    if fn_module is not None:
        files["fn.py"] = fn_module
    st_ = case["import_style"]
    imp = {"module": ("import lib\n", "lib."), "from": ("from lib import Box, compute, k\n", ""), "module_as": ("import lib as L\n", "L.")}[st_]
    texts = {"lib": "", "use": imp[0], "use2": imp[0]}
    prefix = {"lib": "", "use": imp[1], "use2": imp[1]}
    n = 0
    for kind, mod, sub in case["uses"]:
        n += 1
        p = prefix[mod]
        cls = "SubBox" if (sub and case["subclass"]) else "Box"
        if st_ == "from" and cls == "SubBox" and mod != "lib":
            cls = "Box"
        o = "o%d" % n
        t = "%s = %s%s(%d)\n" % (o, p, cls, n)
        if kind == "read":
            t += "print(%s.val)\n" % o
        elif kind == "write":
            t += "%s.val = %d\nprint(%s.val)\n" % (o, n + 10, o)
        elif kind == "aug":
            t += "%s.val %s %d\nprint(%s.val)\n" % (o, ["+=", "-=", "*="][n % 3], n, o)
        elif kind == "expr":
            t += "print(%s.val * 2 + %s.bump(1))\n" % (o, o)
        elif kind == "read_twice":
            t += "print(%s.val + %s.val, %s.scale(2))\n" % (o, o, o)
        elif kind == "write_expr":
            t += "%s.val = %s.val * 3\nprint(%s.val)\n" % (o, o, o)
        elif kind == "tuple_write":
            t += "%s.val, z%d = 7, 8\nprint(%s.val, z%d)\n" % (o, n, o, n)
        else:
            t += "print(%s.other)\n" % o
        texts[mod] += t
    for mod, x, y in case["planted"]:
        p = prefix[mod]
        kname = "k" if mod == "lib" or st_ == "from" else p + "k"
        xx, yy = x.replace("k", kname), y.replace("k", kname)
        expr = case["body"].replace("a", "§").replace("b", yy).replace("§", xx)
        texts[mod] += "print(%s)\nprint(%scompute(%s, %s))\n" % (expr, p, xx, yy)
    if case.get("nested_target"):
        files["lib.py"] += (
            "class Basket:\n    def weight(self, a, b):\n        def calc(a, b):\n            return %s\n        return calc(a, b)\n"
            "    def describe(self):\n        return 7\nprint(Basket().weight(2, 3), Basket().describe())\n" % case["body"]
        )
    files["lib.py"] += texts["lib"]
    tail = case.get("tail", "newline")
    for mod in ("use", "use2"):
        if tail != "newline" and texts[mod].count("\n") > 1:
            last_o = [ln.split(" = ")[0] for ln in texts[mod].split("\n") if ln.startswith("o") and " = " in ln and "(" in ln and "." not in ln.split(" = ")[0]]
            if tail == "no_newline" or not last_o:
                texts[mod] = texts[mod].rstrip("\n")
            elif tail == "write_no_newline":
                texts[mod] += "%s.val = 5" % last_o[-1]
            else:
                texts[mod] += "%s.val += 4" % last_o[-1]
    files["use.py"] = texts["use"]
    files["use2.py"] = texts["use2"]
    files["main.py"] = "import lib\nimport use\nimport use2\n"
    return files


def describe(case):
    if case.get("text_case"):
        return {"text_case": case["text_case"], "lib.py": case["files"]["lib.py"], "use.py": case["files"]["use.py"]}
    f = render(case)
    return {"refactoring": case["refactoring"], "lib.py": f["lib.py"], "use.py": f["use.py"]}


def hazards(case):
    hz = set()
    r = case["refactoring"]
    kinds = {u[0] for u in case["uses"]}
    if r == "encapsulate" and case["subclass"]:
        hz.add("attribute_written_through_self_in_subclass")
    return hz


def _tokens(src):
    return list(tokenize.generate_tokens(io.StringIO(src).readline))


def direct_field_access(files):
    """(path, line) of '.val' accesses outside get_val / set_val"""
    out = []
    for p, s in files.items():
        toks = _tokens(s)
        cur_def = None
        for i, t in enumerate(toks):
            if t.type == tokenize.NAME and t.string == "def" and i + 1 < len(toks):
                cur_def = toks[i + 1].string
            if t.type == tokenize.NAME and t.string == "val" and i > 0 and toks[i - 1].string == ".":
                if cur_def not in ("get_val", "set_val", "__init__"):
                    out.append((p, t.start[0], cur_def))
    return out


def direct_constructor_calls(files, factory):
    out = []
    for p, s in files.items():
        toks = _tokens(s)
        cur_def = None
        for i, t in enumerate(toks):
            if t.type == tokenize.NAME and t.string == "def" and i + 1 < len(toks):
                cur_def = toks[i + 1].string
            if t.type == tokenize.NAME and t.string == "Box" and i + 1 < len(toks) and toks[i + 1].string == "(" and (i == 0 or toks[i - 1].string != "class"):
                if cur_def != factory:
                    out.append((p, t.start[0]))
    return out


def evaluate(case, env):
    from rope.base import exceptions as rex
    from rope.base.project import Project
    from rope.refactor.encapsulate_field import EncapsulateField
    from rope.refactor.introduce_factory import IntroduceFactory
    from rope.refactor.localtofield import LocalToField
    from rope.refactor.method_object import MethodObject
    from rope.refactor.usefunction import UseFunction

    if case.get("text_case"):
        return _evaluate_text(case, env)
    out = core.Outcome()
    files = render(case)
    base = runner.run(files, "main.py")
    if base[1]:
        raise core.HarnessError("generated project raises %s\n%s" % (base[1], runner.LAST_TB))
    for hz in sorted(hazards(case)):
        out.labels["hazard:" + hz] += 1
        if env.known(hz):
            out.excluded[hz] += 1
            return out
    r = case["refactoring"]
    out.labels["refactoring:" + r] += 1
    root = core.fresh_dir("c17")
    fsmodel.write_tree(root, files)
    project = Project(root, ropefolder=None)
    try:
        lib = files["lib.py"]
        res = project.get_file("lib.py")
        out.evals += 1
        before = fsmodel.snapshot(root)
        try:
            if r == "encapsulate":
                off = lib.index("self.val") + 5
                if case["query"] == "use" and ".val" in files["use.py"]:
                    res = project.get_file("use.py")
                    off = files["use.py"].index(".val") + 1
                changes = EncapsulateField(project, res, off).get_changes()
            elif r in ("factory", "factory_global"):
                off = lib.index("class Box") + 6
                changes = IntroduceFactory(project, res, off).get_changes("create", global_factory=(r == "factory_global"))
            elif r == "method_object":
                off = lib.index("def compute") + 4
                if case.get("nested_target"):
                    off = lib.index("def calc") + 4
                changes = MethodObject(project, res, off).get_changes("_Compute")
            elif r == "local_to_field":
                off = lib.index("tmp")
                if case.get("closure") and case["query"] == "use":
                    off = lib.index("return tmp + k") + 7  # the occurrence inside the nested function
                changes = LocalToField(project, res, off).get_changes()
            else:
                if case["query"] == "use" and "compute(" in files["use.py"]:
                    # started from a reference in a client module, not from the definition
                    res = project.get_file("use.py")
                    off = files["use.py"].index("compute(")
                elif "fn.py" in files:
                    res = project.get_file("fn.py")
                    off = files["fn.py"].index("def compute") + 4
                else:
                    off = lib.index("def compute") + 4
                changes = UseFunction(project, res, off).get_changes()
        except rex.RopeError:
            out.refused += 1
            out.labels["refused:" + r] += 1
            if fsmodel.snapshot(root) != before:
                out.violation("C17:refusal_changed_tree:" + r, "")
            return out
        except Exception as e:
            out.violation("C17:internal_error:%s:%s" % (type(e).__name__, r), repr(e)[:300])
            return out
        from props.c05_move import _apply, _show

        new_files, moves = _apply(files, changes)
        where = "%s\n%s" % (r, _show(files, new_files, moves))
        bad = runner.compiles(new_files)
        if bad:
            out.violation("C17:does_not_compile:" + r, "%s\n%s" % (bad[0], where))
            return out
        each = runner.import_each(new_files, only=tuple(p_ for p_ in ("lib.py", "use.py", "use2.py", "fn.py") if p_ in new_files))
        broken = {p: e for p, e in each.items() if e}
        if broken:
            out.violation("C17:module_does_not_import:%s:%s" % (r, sorted(broken.values())[0]), "%s\n%s" % (broken, where))
            return out
        got = runner.run(new_files, "main.py")
        if got != base:
            out.violation("C17:behaviour:%s%s" % (r, ":" + got[1] if got[1] else ""), "output %r/%s -> %r/%s\n%s" % (base[0][-80:], base[1], got[0][-80:], got[1], where))
            return out
        if r == "encapsulate":
            left = direct_field_access(new_files)
            if left:
                out.violation("C17:direct_field_access_left", "%s\n%s" % (left[:4], where))
                return out
        if r in ("factory", "factory_global"):
            left = direct_constructor_calls(new_files, "create")
            if left:
                out.violation("C17:direct_constructor_call_left:" + r, "%s\n%s" % (left[:4], where))
                return out
        changed = [p for p in files if files[p] != new_files.get(p)]
        if len(changed) >= 2 or len({u[0] for u in case["uses"]}) >= 2:
            out.nontrivial.add("c")
        out.labels["accepted:" + r] += 1
    finally:
        project.close()
        core.rmtree(root)
    return out
