"""C12 - closing and reopening a project loses nothing it promised to keep.

Three generated case kinds:
  ser       : data value -> python_to_json -> json text -> json_to_python, type-exact equality, both versions
  history   : do/undo/redo histories with close+reopen at arbitrary points (save_history=True); lists equal by
              ChangeToData form before/after reopen, and undo/redo after reopen restore the exact earlier trees
  objectdb  : generated modules analysed with static object analysis, objectdb image equal after close/reopen
"""
import json
import os

from hypothesis import strategies as st

from vlib import core, fsmodel

PID = "C12"
LEVEL = "exploration"
TECHNIQUE = "round-trip property testing (Hypothesis recursive data; op-sequence histories with close/reopen; snapshot-stack oracle)"
RULE = (
    "ser: recursive values over str/int/bool/None/tuple/list/dict with keys from ordinary, numeric-looking (incl. unicode "
    "digits), empty strings, ints, None, nested tuples - non-trivial = contains a dict with a non-plain key or a tuple "
    "inside a list/dict; plus documented-unsupported values (float, set, key '$') which must raise TypeError/ValueError. "
    "history: 3-14 ops of do/undo/redo/reopen on a saved-history project - non-trivial = a reopen with >=2 history entries "
    "of >=2 kinds followed by an undo or redo. objectdb: modules with calls, analysed, reopened - non-trivial = >=1 stored "
    "call info. distinct by case hash"
    "; histories also clear the history or undo with drop=True between sessions; keys include numeric-but-not-digit strings"
)
ASSUMPTIONS = [
    "history trees are UTF-8/LF (C16 owns byte-exactness)",
    "objectdb comparison is on the plain-data image (call_info, per_name) of every scope",
]
BUDGET = {"quick": (30000, 200), "thorough": (200000, 2400)}

# ------------------------------------------------------------------ serializer values

_plain_keys = st.sampled_from(["a", "key", "items", "v", "data", "references", "x y", "-1", "1.5", "1a", "t", "l"])
_odd_keys = st.one_of(
    # digit strings, other-script digits, superscripts, and strings that are numeric without being digits (isnumeric / isdecimal
    # / isdigit disagree on these), all legal dict keys and - as variable names like `一` - legal identifiers
    st.sampled_from(["", "0", "1", "007", "12", "²", "٣", "１２", "0x1", " 1", "1 ", "½", "¾", "Ⅷ", "〇", "一", "二十", "⑦", "௰"]),
    st.integers(-3, 12),
    st.none(),
    st.booleans(),
    st.text(max_size=3),
)
_atoms = st.one_of(st.integers(-5, 2**40), st.text(max_size=4), st.none(), st.booleans(), st.sampled_from(["$", "t", "0", "items"]))


def _enc_atom(x):
    if x is None:
        return ["n"]
    if isinstance(x, bool):
        return ["b", x]
    if isinstance(x, int):
        return ["i", x]
    return ["s", x]


def _values():
    atoms = _atoms.map(_enc_atom)

    def ext(children):
        tup_keys = st.lists(_odd_keys.map(_enc_atom), max_size=3).map(lambda xs: ["t", xs])
        keys = st.one_of(_plain_keys.map(_enc_atom), _odd_keys.map(_enc_atom), tup_keys)
        return st.one_of(
            st.lists(children, max_size=4).map(lambda xs: ["l", xs]),
            st.lists(children, max_size=4).map(lambda xs: ["t", xs]),
            st.lists(st.tuples(keys, children), max_size=4).map(lambda kv: ["d", [list(p) for p in kv]]),
        )

    return st.recursive(atoms, ext, max_leaves=12)


def decode(enc):
    k = enc[0]
    if k == "n":
        return None
    if k in ("b", "i", "s", "f"):
        return enc[1]
    if k == "l":
        return [decode(x) for x in enc[1]]
    if k == "t":
        return tuple(decode(x) for x in enc[1])
    if k == "set":
        return {decode(x) for x in enc[1]}
    if k == "d":
        return {decode(a): decode(b) for a, b in enc[1]}
    raise ValueError(k)


def type_exact_equal(a, b):
    if type(a) is not type(b):
        return False
    if isinstance(a, (list, tuple)):
        return len(a) == len(b) and all(type_exact_equal(x, y) for x, y in zip(a, b))
    if isinstance(a, dict):
        if len(a) != len(b):
            return False
        for k, v in a.items():
            hits = [k2 for k2 in b if type_exact_equal(k, k2)]
            if len(hits) != 1 or not type_exact_equal(v, b[hits[0]]):
                return False
        return True
    return a == b


def _features(v, inside=False, feats=None):
    feats = feats if feats is not None else set()
    if isinstance(v, tuple):
        if inside:
            feats.add("tuple_nested")
        for x in v:
            _features(x, True, feats)
    elif isinstance(v, list):
        for x in v:
            _features(x, True, feats)
    elif isinstance(v, dict):
        for k, x in v.items():
            if not isinstance(k, str) or k.isdigit() or k == "":
                feats.add("odd_key")
            if isinstance(k, str) and k.isdigit() and not k.isascii():
                feats.add("unicode_digit_key")
            if isinstance(k, tuple):
                feats.add("tuple_key")
            if k == "$":
                feats.add("dollar_key")
            _features(x, True, feats)
    return feats


def _has_dollar_key(v):
    if isinstance(v, dict):
        return any(k == "$" or _has_dollar_key(k) or _has_dollar_key(x) for k, x in v.items())
    if isinstance(v, (list, tuple)):
        return any(_has_dollar_key(x) for x in v)
    return False


@st.composite
def ser_cases(draw):
    r = draw(st.integers(0, 9))
    if r == 0:  # documented-unsupported values
        bad = draw(st.sampled_from([["f", 1.5], ["set", [["i", 1]]], ["l", [["f", 0.0]]], ["d", [[["s", "$"], ["i", 1]]]], ["d", [[["s", "a"], ["set", []]]]]]))
        return {"kind": "ser", "value": bad, "version": draw(st.sampled_from([1, 2])), "unsupported": True}
    return {"kind": "ser", "value": draw(_values()), "version": draw(st.sampled_from([1, 2]))}


# ------------------------------------------------------------------ histories with reopen

UTEXTS = ["x = 1\n", "s = 'λ中'\n\n\nq = 2\n", "", "def f():\n    return 'é'\n", "no_newline = 1", "# only comment\n", "a = '''multi\nline'''\n"]


@st.composite
def hist_cases(draw):
    tree = {"a.py": "x = 1\n", "b.py": "y = 'ü'\n", "pk/": None, "pk/c.py": "z = 3\n"}
    n = draw(st.integers(3, 14))
    ops = []
    for _ in range(n):
        r = draw(st.integers(0, 11))
        if r == 10:
            ops.append(["clear"])
        elif r == 11:
            ops.append(["undo_drop"])
        elif r <= 3:
            nleaf = draw(st.sampled_from([1, 1, 2, 3]))
            ops.append(["do", [list(draw(st.tuples(st.integers(0, 6), st.integers(0, 7), st.integers(0, 7)))) for _ in range(nleaf)], draw(st.booleans())])
        elif r <= 5:
            ops.append(["undo"])
        elif r == 6:
            ops.append(["redo"])
        else:
            ops.append(["reopen"])
    return {"kind": "history", "tree": tree, "ops": ops}


# ------------------------------------------------------------------ objectdb

_ARGS = ["1", "'s'", "[1, 2]", "(1, 'a')", "{'k': 1}", "None", "C()", "D()", "[C()]", "{1: C()}", "f0", "len", "(C(), D())", "{C()}"]


@st.composite
def odb_cases(draw):
    nfun = draw(st.integers(1, 3))
    lines = ["class C:\n    def m(self, p):\n        return p\n", "class D(C):\n    pass\n"]
    for i in range(nfun):
        ret = draw(st.sampled_from(["a", "b", "[a]", "(a, b)", "{'r': a}", "C()", "None", "a.m(b)"]))
        lines.append("def f%d(a, b=None):\n    return %s\n" % (i, ret))
    ncall = draw(st.integers(1, 6))
    for j in range(ncall):
        f = draw(st.integers(0, nfun - 1))
        a = draw(st.sampled_from(_ARGS))
        b = draw(st.sampled_from(_ARGS + [""]))
        if draw(st.booleans()):
            lines.append("v%d = f%d(%s%s)\n" % (j, f, a, (", " + b) if b else ""))
        else:
            lines.append("v%d = C().m(%s)\n" % (j, a))
    for j in range(draw(st.integers(0, 3))):
        a = draw(st.sampled_from(_ARGS))
        lines.append(draw(st.sampled_from(["l%d = []\nl%d.append(%s)\n", "d%d = {}\nd%d['k'] = %s\n", "s%d = set()\ns%d.add(%s)\n"])) % (j, j, a))
    other = "import mod\nw = mod.f0(%s, %s)\nu = mod.C().m(w)\n" % (draw(st.sampled_from(_ARGS[:6])), draw(st.sampled_from(_ARGS[:6])))
    # a library folder outside the project (python_path preference) whose functions the project calls: next to the root with
    # a name that starts with the root's name, or somewhere unrelated; and whether stored information is validated on open
    outside = draw(st.sampled_from(["none", "prefix", "other"]))
    if outside != "none":
        lines.append("import helpers\nh1 = helpers.make(C())\nh2 = helpers.make(%s)\n" % draw(st.sampled_from(_ARGS[:6])))
    return {"kind": "objectdb", "files": {"mod.py": "".join(lines), "other.py": other}, "reopens": draw(st.integers(1, 2)), "sync_between": draw(st.booleans()),
            "outside": outside, "validate": draw(st.booleans()),
            # after the analysis the module is renamed through rope and a new module is created and analysed under the old path
            "rename_recreate": draw(st.integers(0, 2)) == 0}


def strategy(tier):
    return st.one_of(ser_cases(), ser_cases(), hist_cases(), odb_cases())


def describe(case):
    if case["kind"] == "ser":
        return {"kind": "ser", "version": case["version"], "value": repr(decode(case["value"]))[:300]}
    if case["kind"] == "history":
        return {"kind": "history", "ops": case["ops"]}
    return {"kind": "objectdb", "mod.py": case["files"]["mod.py"][:600]}


# ------------------------------------------------------------------ evaluation


def evaluate(case, env):
    k = case["kind"]
    if k == "ser":
        return _eval_ser(case)
    if k == "history":
        return _eval_history(case, env)
    return _eval_odb(case)


def _eval_ser(case):
    from rope.base import serializer

    out = core.Outcome()
    value = decode(case["value"])
    version = case["version"]
    out.evals = 1
    out.labels["ser:v%d" % version] += 1
    if case.get("unsupported") or _has_dollar_key(value):
        out.labels["ser:unsupported"] += 1
        try:
            serializer.python_to_json(value, version)
        except (TypeError, ValueError):
            out.nontrivial.add("unsupported")
            return out
        except Exception as e:
            out.violation("C12:ser:unsupported_wrong_error", "%r -> %r" % (value, e))
            return out
        out.violation("C12:ser:unsupported_accepted", "documented-unsupported value %r was encoded" % (value,))
        return out
    try:
        encoded = serializer.python_to_json(value, version)
        text = json.dumps(encoded)
        decoded = json.loads(text)
        back = serializer.json_to_python(decoded)
    except Exception as e:
        out.violation("C12:ser:raised:" + type(e).__name__, "%r v%d -> %r" % (value, version, e))
        return out
    if encoded != decoded:
        out.violation("C12:ser:encoded_not_json_stable", "%r" % (value,))
    if not type_exact_equal(value, back):
        out.violation("C12:ser:roundtrip", "v%d %r -> %r" % (version, value, back))
    feats = _features(value)
    for f in feats:
        out.labels["ser:" + f] += 1
    if feats & {"odd_key", "tuple_key", "tuple_nested"}:
        out.nontrivial.add("ser")
    return out


def _open(root, **prefs):
    from rope.base.project import Project

    return Project(root, save_history=True, save_objectdb=True, **prefs)


def _lists_data(project):
    from rope.base.change import ChangeToData

    td = ChangeToData()
    return [td(c) for c in project.history.undo_list], [td(c) for c in project.history.redo_list]


def _eval_history(case, env):
    from props import c11_history as c11

    out = core.Outcome()
    root = core.fresh_dir("c12")
    project = None
    try:
        fsmodel.write_tree(root, case["tree"])
        project = _open(root)
        states = [fsmodel.snapshot(root)]  # states[i] = tree with i changes in force
        pos = 0
        kinds = set()
        reopened_rich = False
        after_reopen_moves = 0
        step = 0
        for op in case["ops"]:
            step += 1
            sub = {"step": step, "op": op}
            if op[0] == "do":
                tree_now = states[pos]
                spec = c11._resolve_do(tree_now, op, step, allow_rm=False)
                # unicode / multi-line contents
                for leaf in fsmodel.leaves(spec):
                    if leaf[0] == "edit":
                        leaf[2] = UTEXTS[step % len(UTEXTS)] + leaf[2]
                    kinds.add(leaf[0])
                ch = fsmodel.build_change(project, spec, tree_now)
                project.do(ch)
                del states[pos + 1:]
                states.append(fsmodel.snapshot(root))
                pos += 1
                want = fsmodel.apply_spec(tree_now, spec)
                if states[pos] != want:
                    out.violation("C12:history:do_tree", fsmodel.diff_trees(want, states[pos]), sub)
                    break
            elif op[0] in ("undo", "redo"):
                can = pos > 0 if op[0] == "undo" else pos < len(states) - 1
                if not can:
                    continue
                try:
                    (project.history.undo if op[0] == "undo" else project.history.redo)()
                except Exception as e:
                    out.violation("C12:history:%s_raised:%s" % (op[0], type(e).__name__), repr(e), sub)
                    break
                pos += -1 if op[0] == "undo" else 1
                out.evals += 1
                got = fsmodel.snapshot(root)
                if got != states[pos]:
                    out.violation(
                        "C12:history:%s_tree%s" % (op[0], "_after_reopen" if reopened_rich else ""),
                        fsmodel.diff_trees(states[pos], got),
                        sub,
                    )
                    break
                if reopened_rich:
                    after_reopen_moves += 1
            elif op[0] == "clear":
                # forget the whole history: the tree stays, both lists become (and must stay, across sessions) empty
                project.history.clear()
                states = [states[pos]]
                pos = 0
                out.labels["history:clear"] += 1
            elif op[0] == "undo_drop":
                # undo the last change without keeping it for redo (only asked when nothing is redoable, see C11's finding)
                if pos == 0 or pos != len(states) - 1:
                    continue
                try:
                    project.history.undo(drop=True)
                except Exception as e:
                    out.violation("C12:history:undo_drop_raised:%s" % type(e).__name__, repr(e), sub)
                    break
                states.pop()
                pos -= 1
                out.evals += 1
                out.labels["history:undo_drop"] += 1
                if fsmodel.snapshot(root) != states[pos]:
                    out.violation("C12:history:undo_drop_tree", fsmodel.diff_trees(states[pos], fsmodel.snapshot(root)), sub)
                    break
            else:  # reopen
                before = _lists_data(project)
                project.close()
                project = None
                try:
                    project = _open(root)
                    after = _lists_data(project)
                except Exception as e:
                    out.violation("C12:history:reopen_raised:" + type(e).__name__, repr(e), sub)
                    break
                out.evals += 1
                if after != before:
                    out.violation(
                        "C12:history:lists_differ",
                        "undo %d->%d redo %d->%d entries; first difference: %s"
                        % (len(before[0]), len(after[0]), len(before[1]), len(after[1]), _first_diff(before, after)),
                        sub,
                    )
                    break
                if len(after[0]) != pos or len(after[1]) != len(states) - 1 - pos:
                    out.violation("C12:history:list_sizes", "undo %d redo %d, expected %d/%d" % (len(after[0]), len(after[1]), pos, len(states) - 1 - pos), sub)
                    break
                if fsmodel.snapshot(root) != states[pos]:
                    out.violation("C12:history:reopen_changed_tree", "", sub)
                    break
                if len(after[0]) + len(after[1]) >= 2 and len(kinds) >= 2:
                    reopened_rich = True
                    out.labels["history:rich_reopen"] += 1
                if after[1]:
                    out.labels["history:reopen_with_redo"] += 1
        if reopened_rich and after_reopen_moves:
            out.nontrivial.add("history")
    finally:
        if project is not None:
            try:
                project.close()
            except Exception:
                pass
        core.rmtree(root)
    return out


def _first_diff(a, b):
    for x, y in zip(a[0] + a[1], b[0] + b[1]):
        if x != y:
            return "%r != %r" % (x, y)
    return "length"


def _odb_image(project):
    files = project.pycore.object_info.objectdb.files
    img = {}
    for path in files.keys():
        scopes = {}
        fi = files[path]
        for key in fi.keys():
            si = fi[key]
            scopes[key] = (dict(si.call_info), dict(si.per_name))
        img[path] = scopes
    return img


def _eval_odb(case):
    out = core.Outcome()
    root = core.fresh_dir("c12o")
    project = None
    try:
        fsmodel.write_tree(root, case["files"])
        prefs = {}
        libdir = None
        if case.get("outside", "none") != "none":
            libdir = root + "_lib" if case["outside"] == "prefix" else core.fresh_dir("c12lib")
            fsmodel.write_tree(libdir, {"helpers.py": "def make(p):\n    return p\n"})
            prefs["python_path"] = [libdir]
            out.labels["objectdb:outside_library:" + case["outside"]] += 1
        if case.get("validate"):
            prefs["validate_objectdb"] = True
        project = _open(root, **prefs)
        paths = sorted(case["files"])
        for i_, p in enumerate(paths):
            project.pycore.analyze_module(project.get_file(p))
            if case.get("sync_between") and i_ == 0:
                # the same session saves once in the middle (project.sync()) and goes on collecting information
                project.sync()
        if case.get("rename_recreate"):
            _odb_image(project)  # (every stored file has been looked up once)
            project.get_file("mod.py").move("moved.py")
            fresh = project.root.create_file("mod.py")
            fresh.write("class C:\n    def m(self, p):\n        return p\ndef f0(a, b=None):\n    return [a]\nq1 = f0(C())\nq2 = C().m(1.5)\n")
            project.pycore.analyze_module(fresh)
            out.labels["objectdb:rename_then_recreate"] += 1
        img = _odb_image(project)
        ncalls = sum(len(s[0]) for f in img.values() for s in f.values())
        npn = sum(len(s[1]) for f in img.values() for s in f.values())
        if npn:
            out.labels["objectdb:per_name"] += 1
        out.labels["objectdb:call_infos=%d" % min(ncalls, 9)] += 1
        for i in range(case["reopens"]):
            project.close()
            project = None
            try:
                project = _open(root, **prefs)
                img2 = _odb_image(project)
            except Exception as e:
                out.violation("C12:objectdb:reopen_raised:" + type(e).__name__, repr(e))
                return out
            out.evals += 1
            if not type_exact_equal(img, img2):
                out.violation("C12:objectdb:image_differs", "before %r\nafter  %r" % (img, img2))
                return out
        if ncalls >= 1:
            out.nontrivial.add("objectdb")
        if libdir and any(os.path.isabs(k) for k in img):
            out.nontrivial.add("objectdb_outside_" + case["outside"])
    finally:
        if project is not None:
            try:
                project.close()
            except Exception:
                pass
        core.rmtree(root)
        if libdir:
            core.rmtree(libdir)
    return out
