"""C07 - import tidying never changes what a name means, and is idempotent.

Project: lib.py, pkg/__init__.py, pkg/a.py, pkg/b.py, the module under test (top-level mod.py or pkg/mod.py so that relative
imports are legal), other.py consuming names from it, main.py printing everything.  The module under test gets a
generated import block (plain, dotted, aliased, from, multi-name, star, relative, duplicated, unused, __future__, stdlib,
imports between code) and uses the imported names in drawn patterns (plain, dotted only, inside a function only, only
through __all__, only re-exported to other.py, shadowed by a local).  Actions: the five ImportOrganizer methods under the
preferences split_imports / pull_imports_to_top / sort_imports_alphabetically.
Oracle: (1) for the pure import actions every non-import line is unchanged; (2) every module imports on its own and main
prints the same (this covers __all__ and re-exports); (3) applying the same action to the result yields no change.
"""
import ast
import re

from hypothesis import strategies as st

from vlib import core, fsmodel, runner

PID = "C07"
LEVEL = "exploration"
TECHNIQUE = "metamorphic testing (run before/after, non-import lines untouched) + idempotence check (second application is a no-op); Hypothesis import-block generator"
RULE = (
    "import block of 2-7 statements over 9 forms x usage pattern per imported name (6 patterns) x action (5) x 3 boolean "
    "preferences x module placement (top level | inside a package); non-trivial = the action changed the text and the block had "
    ">= 3 statements of >= 2 forms; distinct by case hash"
    "; 21 import forms incl. names spelled like builtins, a star import that passes on imported modules, `import pkg`, multi-name relative from-imports and relative star imports with a top-level namesake module"
)
ASSUMPTIONS = [
    "the observable meaning of the module is what main.py prints: every used name's value, every __all__ name, every name other.py takes",
    "project modules have no import-time side effects besides definitions",
]
BUDGET = {"quick": (30000, 240), "thorough": (300000, 2700)}

ACTIONS = ["organize_imports", "expand_star_imports", "froms_to_imports", "relatives_to_absolutes", "handle_long_imports"]
# (statement template, names it binds -> expression giving an int when evaluated in the module)
FORMS = {
    "import_lib": ("import lib", {"lib": "lib.f1()"}),
    "import_lib_as": ("import lib as lb", {"lb": "lb.f2()"}),
    "import_dotted": ("import pkg.a", {"pkg": "pkg.a.x1"}),
    "import_dotted_as": ("import pkg.b as pb", {"pb": "pb.y1"}),
    "from_lib": ("from lib import f1", {"f1": "f1()"}),
    "from_lib_as": ("from lib import f2 as g2", {"g2": "g2()"}),
    "from_lib_multi": ("from lib import f3, C1", {"f3": "f3()", "C1": "C1().v"}),
    "from_pkg_mod": ("from pkg import b", {"b": "b.y2"}),
    "from_pkg_a": ("from pkg.a import x2", {"x2": "x2"}),
    "star": ("from lib import *", {"f4": "f4()", "input": "input()"}),
    # names spelled like builtins, and a star import of a module without __all__ that passes on the modules IT imported
    "from_lib_builtin": ("from lib import open", {"open": "open()"}),
    "star2": ("from lib2 import *", {"h1": "h1()", "json": "len(json.dumps(1))", "osp": "len(osp.sep)"}),
    "stdlib_used": ("import os", {"os": "len(os.sep)"}),
    "stdlib_multi": ("import sys, json", {"sys": "len(sys.argv[:0])", "json": "len(json.dumps(1))"}),
    "stdlib_unused": ("import re", {}),
    "rel_from_dot": ("from . import a", {"a": "a.x1"}),
    "rel_from_mod": ("from .b import y1", {"y1": "y1"}),
    "long": ("import pkg.a.deep.deeper.leafmod", {"pkg": "pkg.a.deep.deeper.leafmod.z"}),
    "import_pkg": ("import pkg", {"pkg": "pkg.P0"}),
    "rel_from_multi": ("from .b import y1, y2", {"y1": "y1", "y2": "y2"}),
    "rel_star": ("from .b import *", {"y2": "y2"}),
}
USAGES = ["plain", "plain", "plain", "function_only", "function_only", "all_only", "all_only", "reexport_only", "unused", "unused", "shadowed", "shadowed", "global_namesake"]


@st.composite
def cases(draw):
    in_pkg = draw(st.booleans())
    pool = [k for k in FORMS if in_pkg or not k.startswith("rel_")]
    n = draw(st.integers(2, 7))
    stmts = [draw(st.sampled_from(pool)) for _ in range(n)]
    usage = {}
    for k in set(stmts):
        for name in FORMS[k][1]:
            usage[name] = draw(st.sampled_from(USAGES))
    return {
        "in_pkg": in_pkg,
        "stmts": stmts,
        "usage": usage,
        "future": draw(st.integers(0, 4)) == 0,
        "docstring": draw(st.booleans()),
        "late_import": draw(st.booleans()),
        "has_all": draw(st.booleans()),
        "action": draw(st.sampled_from(ACTIONS)),
        "prefs": {"split_imports": draw(st.booleans()), "pull_imports_to_top": draw(st.booleans()), "sort_imports_alphabetically": draw(st.booleans())},
    }


def strategy(tier):
    return cases()


def render(case):
    files = {
        "lib.py": "TAG = 6\ndef f1():\n    return 1\ndef f2():\n    return 2\ndef f3():\n    return 3\ndef f4():\n    return 4\nclass C1:\n    def __init__(self):\n        self.v = 5\ndef open():\n    return 7\ndef input():\n    return 8\n__all__ = ['f1', 'f2', 'f3', 'f4', 'C1', 'open', 'input']\n",
        "lib2.py": "import json\nimport os.path as osp\ndef h1():\n    return 9\n",
        "pkg/__init__.py": "P0 = 41\nTAG = 46\n",
        "b.py": "y1 = 91\nq2 = 92\n",  # a top-level namesake of pkg/b.py: a relative import must stay relative
        "pkg/a/__init__.py": "x1 = 11\nx2 = 12\nTAG = 16\n",
        "pkg/a/deep/__init__.py": "",
        "pkg/a/deep/deeper/__init__.py": "",
        "pkg/a/deep/deeper/leafmod.py": "z = 31\nTAG = 36\n",
        "pkg/b.py": "y1 = 21\ny2 = 22\nTAG = 26\n",
    }
    lines = []
    if case["docstring"]:
        lines.append('"""module docstring: import os, from lib import f1"""')
    if case["future"]:
        lines.append("from __future__ import annotations")
    block = [FORMS[k][0] for k in case["stmts"]]
    late = None
    if case["late_import"] and len(block) >= 2:
        late = block.pop()
    lines += block
    lines.append("def early():\n    return 0")
    if late:
        lines.append(late)
    plain, infunc, allnames, reexport = [], [], [], []
    bound = {}
    for k in case["stmts"]:
        bound.update(FORMS[k][1])
    for name, expr in sorted(bound.items()):
        u = case["usage"].get(name, "plain")
        if u == "plain":
            plain.append(expr)
        elif u == "function_only":
            infunc.append(expr)
        elif u == "all_only":
            allnames.append(name)
        elif u == "reexport_only":
            reexport.append(name)
        elif u == "global_namesake":
            # the only use is a module-level attribute access whose LAST component is also a global of this module
            m_ = re.match(r"^([\w.]+)\.\w+(\(\))?$", expr)
            if m_:
                lines.append("TAG = %s.TAG" % m_.group(1))
                if "TAG" not in plain:
                    plain.append("TAG")
            else:
                plain.append(expr)
        elif u == "shadowed":
            lines.append("def shadow_%s():\n    %s = 40\n    return %s" % (name, name, name))
    lines.append("def run():\n    vals = [%s]\n    return vals" % ", ".join(infunc))
    lines.append("VALUES = [%s]" % ", ".join(plain))
    if case["has_all"] or allnames:
        lines.append("__all__ = %r" % (["run", "VALUES", "early"] + allnames))
    modtext = "\n".join(lines) + "\n"
    modpath = "pkg/mod.py" if case["in_pkg"] else "mod.py"
    modname = "pkg.mod" if case["in_pkg"] else "mod"
    files[modpath] = modtext
    other = "import %s as m\n" % modname
    for name in reexport:
        other += "from %s import %s\n" % (modname, name)
    other += "def show():\n    return [%s]\n" % ", ".join("repr(type(%s).__name__)" % n for n in reexport)
    files["other.py"] = other
    main = "import %s as m\nimport other\nprint(m.VALUES, m.run(), m.early())\nprint(other.show())\n" % modname
    main += "print(sorted(n for n in getattr(m, '__all__', [])), [type(getattr(m, n)).__name__ for n in getattr(m, '__all__', [])])\n"
    files["main.py"] = main
    return files, modpath


def describe(case):
    files, modpath = render(case)
    return {"module": files[modpath], "action": case["action"], "prefs": case["prefs"]}


def hazards(case):
    hz = set()
    a = case["action"]
    if case["future"] and a == "froms_to_imports":
        hz.add("future_import_turned_into_plain_import")
    by_name = {}
    for k in case["stmts"]:
        for n in FORMS[k][1]:
            by_name.setdefault(n, set()).add(k)
    for n, forms in by_name.items():
        u = case["usage"].get(n)
        if u == "reexport_only":
            hz.add("reexport_without_all_removed_as_unused")
        if u == "all_only":
            if forms & {"star", "rel_star", "star2"}:
                hz.add("all_export_of_star_imported_name_lost")
            if a == "froms_to_imports" and any(f.startswith("from_") or f.startswith("rel_") for f in forms):
                hz.add("all_export_of_from_imported_name_lost_by_froms_to_imports")
    st_ = set(case["stmts"])
    if "star" in st_ and "from_lib_as" in st_:
        hz.add("aliased_from_import_subsumed_by_star_import")
    if a == "froms_to_imports" and st_ & {"rel_from_dot", "from_pkg_mod"}:
        hz.add("froms_to_imports_of_a_module_imports_only_the_package")
    if a in ("organize_imports", "handle_long_imports") and (("star" in st_ and st_ & {"from_lib", "from_lib_multi", "from_lib_builtin"}) or ("rel_star" in st_ and st_ & {"rel_from_mod", "rel_from_multi"})):
        hz.add("star_import_dropped_on_reapplication_next_to_explicit_from_import")
    if a == "froms_to_imports" and "import_dotted_as" in st_ and st_ & {"rel_from_mod", "rel_from_multi", "rel_star"}:
        hz.add("froms_to_imports_reapplied_drops_aliased_import_of_same_module")
    pkg_forms = [k for k in case["stmts"] if "pkg" in FORMS[k][1]]
    winner = pkg_forms[-1] if pkg_forms else None  # the form whose expression the module's code uses for `pkg`
    idle_dotted = [k for k in set(pkg_forms) if k in ("long", "import_dotted") and (k != winner or case["usage"].get("pkg") not in ("plain", "function_only"))]
    if a == "froms_to_imports" and st_ & {"rel_from_mod", "rel_from_multi", "rel_star", "from_pkg_a"} and idle_dotted:
        # a dotted `import pkg.x...` whose own path the code does not use survives the first application (the name pkg is
        # "used") and is removed by the second one, once `import pkg.b` provides pkg
        hz.add("froms_to_imports_reapplied_drops_package_import_named_only_in_all")
    if a in ("organize_imports", "handle_long_imports") and {"star2", "stdlib_multi"} <= st_:
        # `import sys, json` next to a star import whose module also passes json on
        hz.add("plain_import_dropped_on_reapplication_next_to_star_import_of_the_same_name")
    if a == "organize_imports" and case["prefs"]["sort_imports_alphabetically"] and ({"import_lib", "import_lib_as"} <= st_ or {"import_dotted_as", "from_pkg_mod"} <= st_):
        hz.add("organize_imports_sort_unstable_for_same_module")
    return hz


def _non_import_lines(src):
    tree = ast.parse(src)
    drop = set()
    for node in tree.body:
        if isinstance(node, (ast.Import, ast.ImportFrom)):
            drop.update(range(node.lineno, node.end_lineno + 1))
    return [ln for i, ln in enumerate(src.split("\n"), 1) if i not in drop and ln.strip()]


def evaluate(case, env):
    from rope.base import exceptions as rex
    from rope.base.project import Project
    from rope.refactor.importutils import ImportOrganizer

    out = core.Outcome()
    files, modpath = render(case)
    base = runner.run(files, "main.py")
    if base[1]:
        raise core.HarnessError("generated project raises %s\n%s" % (base[1], runner.LAST_TB))
    for hz in sorted(hazards(case)):
        out.labels["hazard:" + hz] += 1
        if env.known(hz):
            out.excluded[hz] += 1
            return out
    a = case["action"]
    out.labels["action:" + a] += 1
    root = core.fresh_dir("c07")
    fsmodel.write_tree(root, files)
    project = Project(root, ropefolder=None, **case["prefs"])
    try:
        res = project.get_file(modpath)
        organizer = ImportOrganizer(project)
        out.evals += 1
        try:
            changes = getattr(organizer, a)(res)
        except rex.ModuleSyntaxError as e:
            # every project module compiles (the project was just run): the text rope cannot parse is one it produced itself
            out.violation("C07:intermediate_text_does_not_parse:%s" % a, "%r\n%s prefs=%s\n%s" % (e, a, case["prefs"], files[modpath]))
            return out
        except rex.RopeError:
            out.refused += 1
            return out
        except Exception as e:
            out.violation("C07:internal_error:%s:%s" % (type(e).__name__, a), repr(e)[:300])
            return out
        if changes is None:
            out.labels["no_change:" + a] += 1
            return out
        new = None
        for c in changes.changes:
            if c.resource.path == modpath:
                new = c.new_contents
        if new is None or len(changes.changes) != 1:
            out.violation("C07:touches_other_files:%s" % a, str([c.resource.path for c in changes.changes]))
            return out
        old = files[modpath]
        where = "%s prefs=%s\n%s" % (a, case["prefs"], _diff(old, new))
        try:
            compile(new, modpath, "exec", dont_inherit=True)
        except SyntaxError as e:
            out.violation("C07:does_not_compile:%s" % a, "%s\n%s" % (e, where))
            return out
        if a in ("organize_imports", "expand_star_imports", "relatives_to_absolutes") and not case["prefs"]["pull_imports_to_top"]:
            if _non_import_lines(old) != _non_import_lines(new):
                out.violation("C07:non_import_code_changed:%s" % a, where)
                return out
        new_files = dict(files)
        new_files[modpath] = new
        each = runner.import_each(new_files, only=(modpath, "other.py"))
        broken = {p: e for p, e in each.items() if e}
        if broken:
            out.violation("C07:module_does_not_import:%s:%s" % (a, sorted(broken.values())[0]), "%s\n%s" % (broken, where))
            return out
        got = runner.run(new_files, "main.py")
        if got != base:
            out.violation("C07:behaviour:%s%s" % (a, ":" + got[1] if got[1] else ""), "output %r/%s -> %r/%s\n%s" % (base[0][-120:], base[1], got[0][-120:], got[1], where))
            return out
        # (3) idempotence
        project.do(changes)
        try:
            again = getattr(organizer, a)(res)
        except Exception as e:
            out.violation("C07:second_application_raised:%s:%s" % (type(e).__name__, a), repr(e)[:200] + "\n" + where)
            return out
        if again is not None:
            new2 = [c.new_contents for c in again.changes if c.resource.path == modpath]
            if new2 and new2[0] != new:
                out.violation("C07:not_idempotent:%s" % a, "second application changes the result again:\n%s" % _diff(new, new2[0]))
                return out
        if len(case["stmts"]) >= 3 and len(set(case["stmts"])) >= 2:
            out.nontrivial.add("c")
        out.labels["changed:" + a] += 1
    finally:
        project.close()
        core.rmtree(root)
    return out


def _diff(a, b):
    import difflib

    return "".join(difflib.unified_diff(a.splitlines(True), b.splitlines(True), "before", "after", n=0))[:1500]
