"""C15 - scopes and name tables agree with Python's own symbol table.

Texts: G-SRC grammar (binding constructs in all nestings), statement soup, corpus files.  R-SCOPE (vlib/rscope.py,
self-checked against symtable by tools/selftest_rscope.py) is the reference.  Per text:
 (1) rope's nested scopes correspond one-to-one, in order, to the reference function/class/comprehension scopes with
     equal start line and get_end() == end_lineno;
 (2) the names owned by each scope agree (ownership on rope's side: the PyName in the scope's table is not the object
     an enclosing table holds);
 (3) for every name use, scope.lookup(name) is the PyName held by the scope the reference resolves to;
 (4) get_inner_scope_for_line / _for_offset give the innermost reference scope for the first line / offset of every
     statement of every scope body.
"""
import ast
import os
import warnings

from hypothesis import strategies as st

from vlib import core, rscope, srcgen

PID = "C15"
LEVEL = "exploration"
TECHNIQUE = "differential testing of rope's scope tree / name tables / lookup against a reference resolver (ast, cross-checked with symtable) on generated and corpus sources; coverage-guided stage (atheris driving the same strategy) in the thorough tier"
RULE = (
    "texts from the G-SRC grammar (def/class/lambda/comprehension nestings, all parameter kinds, global, nonlocal, walrus, "
    "match captures, with/except/for targets, imports, decorators), stdlib statement soup and corpus files (every 5th quick / "
    "all thorough); inner loops over every scope, owned name, name use and statement line; non-trivial = >= 2 nested scopes "
    "and one of {global, nonlocal, comprehension, class in function, keyword-only parameter}; distinct by text hash"
    "; plus a constructive family of deep class/def scope chains, and the holding scope of every continuation line of a multi-line simple statement"
)
ASSUMPTIONS = [
    "names are compared as written (no private-name mangling)",
    "value-less annotations (a: int) are not compared: they bind nothing at module/class level",
    "scope-for-line is checked at the first line/offset of statements directly in a scope body (lines shared by several scopes are ambiguous)",
]
BUDGET = {"quick": (12000, 240), "thorough": (160000, 2700)}
# thorough tier: rope modules instrumented for the coverage-guided (atheris) stage, see vlib/fuzzworker.py
FUZZ_SECONDS = 180  # per process, thorough tier only
FUZZ_MODULES = ["rope.base.pyscopes", "rope.base.pyobjectsdef", "rope.base.pynamesdef", "rope.base.builtins", "rope.base.codeanalyze"]

FEATURE_PREDICATES = {
    "pep695": "pep695_type_params",
    "lambda": "no_lambda_scope",
    "nonlocal": "nonlocal_not_modelled",
    "match": "match_captures_unbound",
    "walrus_in_comp": "walrus_in_comprehension",
    "comp_in_class_body": "comprehension_in_class_body_sees_class_names",
}


def position_hazards(tree):
    """input features of two recorded findings about where comprehensions stand"""
    out = set()

    def has_comp(node):
        # comprehensions, and assignment expressions (bound by the same expression visitor)
        return node is not None and any(isinstance(x, (ast.ListComp, ast.SetComp, ast.DictComp, ast.GeneratorExp, ast.NamedExpr)) for x in ast.walk(node))

    for node in ast.walk(tree):
        if isinstance(node, (ast.For, ast.AsyncFor)) and has_comp(node.iter):
            out.add("comp_in_unvisited_position")
        elif isinstance(node, (ast.With, ast.AsyncWith)) and any(has_comp(i.context_expr) for i in node.items):
            out.add("comp_in_unvisited_position")
        elif isinstance(node, ast.AugAssign) and (has_comp(node.value) or has_comp(node.target)):
            out.add("comp_in_unvisited_position")
        elif isinstance(node, (ast.Return, ast.Yield, ast.YieldFrom)) and has_comp(node.value):
            out.add("comp_in_unvisited_position")
        elif isinstance(node, ast.ExceptHandler) and has_comp(node.type):
            out.add("comp_in_unvisited_position")
        elif isinstance(node, ast.Assign) and any(has_comp(t) for t in node.targets):
            out.add("comp_in_unvisited_position")
        elif isinstance(node, ast.AnnAssign) and (has_comp(node.target) or has_comp(node.annotation) or has_comp(node.value)):
            out.add("comp_in_unvisited_position")
        elif isinstance(node, ast.Delete) and any(has_comp(t) for t in node.targets):
            out.add("comp_in_unvisited_position")
        elif isinstance(node, (ast.FunctionDef, ast.AsyncFunctionDef, ast.Lambda)):
            a = node.args
            parts = a.defaults + [d for d in a.kw_defaults if d is not None] + list(getattr(node, "decorator_list", []))
            if any(has_comp(p) for p in parts):
                out.add("comp_in_unvisited_position")
        elif isinstance(node, ast.ClassDef):
            if any(has_comp(p) for p in node.bases + [k.value for k in node.keywords] + node.decorator_list):
                out.add("comp_in_unvisited_position")
            methods = []
            cstack = list(node.body)
            while cstack:
                x = cstack.pop()
                if isinstance(x, (ast.FunctionDef, ast.AsyncFunctionDef)):
                    methods.append(x)
                    continue
                if isinstance(x, ast.ClassDef):
                    continue
                for f_ in ("body", "orelse", "finalbody"):
                    cstack.extend(getattr(x, f_, []) or [])
                for h in getattr(x, "handlers", []) or []:
                    cstack.extend(h.body)
                for c_ in getattr(x, "cases", []) or []:
                    cstack.extend(c_.body)
            for fn in methods:
                if fn.args.args:
                    stack = list(fn.body)
                    while stack:
                        stn = stack.pop()
                        if isinstance(stn, (ast.FunctionDef, ast.AsyncFunctionDef, ast.ClassDef, ast.For, ast.AsyncFor, ast.With, ast.AsyncWith)):
                            continue
                        if isinstance(stn, ast.Assign) and has_comp(stn.value):
                            out.add("comp_in_method_assignment")
                        for f_ in ("body", "orelse", "finalbody", "handlers"):
                            stack.extend(getattr(stn, f_, []) or [])
        elif isinstance(node, (ast.ListComp, ast.SetComp, ast.DictComp, ast.GeneratorExp)):
            for sub in ast.walk(node):
                if sub is not node and isinstance(sub, (ast.ListComp, ast.SetComp, ast.DictComp, ast.GeneratorExp)):
                    out.add("nested_comp")
    return out


POSITION_PREDICATES = {
    "comp_in_unvisited_position": "comprehension_scope_missing_in_unvisited_position",
    "comp_in_method_assignment": "method_assignment_comprehension_duplicated_in_class",
    "nested_comp": "comprehension_scope_missing_in_unvisited_position",
}


@st.composite
def nest_texts(draw):
    """deep scope chains built on purpose: 2-5 nested class / def levels, three names bound at drawn levels (module,
    class body, parameter, local) and read at every level and in a comprehension at the innermost one - the shapes in
    which "which enclosing scope does this read see" has a non-obvious answer (class bodies are skipped, however many)"""
    names = ["x", "y", "z"]
    lines = []
    for n in names:
        if draw(st.integers(0, 2)):
            lines.append("%s = 0" % n)
    depth = draw(st.integers(2, 5))
    ind = ""
    for d in range(depth):
        kind = draw(st.sampled_from(["class", "def", "class", "def", "def"]))
        if kind == "class":
            lines.append("%sclass C%d:" % (ind, d))
        else:
            params = [n for n in names if draw(st.integers(0, 4)) == 0]
            lines.append("%sdef f%d(%s):" % (ind, d, ", ".join(["self"] + params)))
        ind += "    "
        for n in names:
            if draw(st.integers(0, 3)) == 0:
                lines.append("%s%s = %d" % (ind, n, d + 1))
        if kind == "def" and draw(st.integers(0, 5)) == 0:
            lines.append("%sglobal %s" % (ind, draw(st.sampled_from(names)))) if not any(l.startswith(ind) and "=" in l for l in lines[-3:]) else None
        used = [n for n in names if draw(st.booleans())] or [draw(st.sampled_from(names))]
        lines.append("%su%d = %s" % (ind, d, " + ".join(used)))
    tail = draw(st.sampled_from(["none", "comp", "lambda_free", "inner_def", "comps_out_of_visit_order", "self_rebinds_member"]))
    if tail == "self_rebinds_member":
        # a method assigns, through self, an attribute named like a method / nested class / decorated member defined
        # earlier (or later) in the class body
        before = draw(st.booleans())
        member = ["%sclass Holder:" % ind]
        defs = ["%s    def handler(self, v):\n%s        return v" % (ind, ind), "%s    class Meta:\n%s        pass" % (ind, ind), "%s    @property\n%s    def size(self):\n%s        return 1" % (ind, ind, ind)]
        setter = "%s    def disable(self):\n%s        self.handler = None\n%s        self.Meta = 0" % (ind, ind, ind)
        lines.extend(member + (defs + [setter] if before else [setter] + defs))
    if tail == "comps_out_of_visit_order":
        # several comprehensions in one expression whose AST field order is not their textual order
        a, b, c = (draw(st.sampled_from(names)) for _ in range(3))
        lines.append(draw(st.sampled_from([
            "%sw = [i for i in %s] if any(j for j in %s) else {k for k in %s}",
            "%sw = {'k': [i for i in %s], tuple(j for j in %s): 1, 2: [k for k in %s]}",
            "%sw = [i for i in %s] if [j for j in %s] else [k for k in %s] if %s else 0".replace("%s else 0", "0 else 0"),
            "%sw = sum(i for i in %s) < len([j for j in %s]) < max(k for k in %s)",
            "%sw = sum(x for x in %s) + sum(y for y in %s) + sum(z for z in %s)",
        ])) % (ind, a, b, c))
    if tail == "comp":
        lines.append("%sw = [%s for i in %s]" % (ind, draw(st.sampled_from(names)), draw(st.sampled_from(names))))
    elif tail == "inner_def":
        lines.append("%sdef g(self):\n%s    return %s" % (ind, ind, " + ".join(names)))
    src = "\n".join(l for l in lines if l) + "\n"
    return src


def _compiles(src):
    try:
        compile(src, "<nest>", "exec")
        return True
    except SyntaxError:
        return False


def strategy(tier):
    return st.one_of(
        srcgen.grammar(profile="binding").map(lambda s: {"src": s, "from": "grammar"}),
        srcgen.grammar(profile="binding").map(lambda s: {"src": s, "from": "grammar"}),
        srcgen.soup().map(lambda s: {"src": s, "from": "soup"}),
        nest_texts().map(lambda s: {"src": s if _compiles(s) else "x = 0\n", "from": "nest"}),
    )


def enumerate_cases(tier, k, nworkers):
    files = srcgen.corpus_files()
    step = 5 if tier == "quick" else 1
    for i, path in enumerate(files[2::step]):
        if i % nworkers != k:
            continue
        src = srcgen.read_source(path)
        if src is None or len(src) > (40000 if tier == "quick" else 300000):
            continue
        yield {"src": src, "from": "corpus:" + path.split("/lib/python3.12/")[-1]}


def describe(case):
    return {"from": case["from"], "src": case["src"][:500]}


_PROJECT = None


_PROJECT_PID = None


def _project():
    global _PROJECT, _PROJECT_PID
    if _PROJECT is None or _PROJECT_PID != os.getpid():
        _PROJECT_PID = os.getpid()
        from rope.base.project import Project

        _PROJECT = Project(core.fresh_dir("c15"), ropefolder=None)
    return _PROJECT


_COUNT = [0]


def _fresh_module(src):
    """the text as a real module file of a scratch project (a new file name per text: nothing cached can leak)"""
    global _PROJECT
    _COUNT[0] += 1
    if _COUNT[0] % 200 == 0 and _PROJECT is not None:
        _PROJECT.close()
        _PROJECT = None
    project = _project()
    for old in os.listdir(project.address):
        if old.startswith("mod_") and old.endswith(".py"):
            os.remove(os.path.join(project.address, old))
    name = "mod_%d.py" % _COUNT[0]
    with open(os.path.join(project.address, name), "w", encoding="utf-8", newline="") as fh:
        fh.write(src)
    return project.get_pymodule(project.get_file(name), force_errors=True)


def _rope_kind(s):
    k = s.get_kind()
    if k == "Function":
        return "function"
    if k == "Class":
        return "class"
    if k == "Module":
        return "module"
    return "comp"


def _owned(rs_scope):
    """names this rope scope owns"""
    if rs_scope.parent is None:
        return set(rs_scope.pyobject.get_attributes())
    if rs_scope.get_kind() == "Class":
        return set(rs_scope.get_defined_names())
    names = rs_scope.get_names()
    out = set()
    for n, pn in names.items():
        p = rs_scope.parent
        inherited = False
        while p is not None:
            try:
                pnames = p.get_names()
            except Exception:
                pnames = {}
            if n in pnames and pnames[n] is pn:
                inherited = True
                break
            p = p.parent
        if not inherited:
            out.add(n)
    return out


def _aug_targets(ref):
    out = set()
    for stn in _own_statements(ref):
        if isinstance(stn, ast.AugAssign) and isinstance(stn.target, ast.Name):
            out.add(stn.target.id)
    return out


def _own_statements(ref):
    """all statements of the scope's own body, not descending into nested scopes"""
    stack = list(getattr(ref.node, "body", []))
    while stack:
        stn = stack.pop()
        if not isinstance(stn, ast.stmt):
            continue
        yield stn
        if isinstance(stn, (ast.FunctionDef, ast.AsyncFunctionDef, ast.ClassDef)):
            continue
        for f_ in ("body", "orelse", "finalbody"):
            stack.extend(getattr(stn, f_, []) or [])
        for h in getattr(stn, "handlers", []) or []:
            stack.extend(h.body)
        for c in getattr(stn, "cases", []) or []:
            stack.extend(c.body)


def _otherwise_bound(ref, name):
    """bound by something that is neither a Name store, augmented assignment nor del (import, def, class, parameter ...)"""
    if ref.kind in ("function", "lambda"):
        a = ref.node.args
        if name in {x.arg for x in a.posonlyargs + a.args + a.kwonlyargs + [y for y in (a.vararg, a.kwarg) if y]}:
            return True
    for stn in _own_statements(ref):
        if isinstance(stn, (ast.FunctionDef, ast.AsyncFunctionDef, ast.ClassDef)) and stn.name == name:
            return True
        if isinstance(stn, ast.Import) and any((a.asname or a.name.split(".")[0]) == name for a in stn.names):
            return True
        if isinstance(stn, ast.ImportFrom) and any((a.asname or a.name) == name for a in stn.names):
            return True
        if isinstance(stn, (ast.Try, ast.TryStar)) and any(h.name == name for h in stn.handlers):
            return True
    return False


def _self_attrs(classnode):
    out = set()
    for fn in ast.walk(classnode):
        if isinstance(fn, (ast.FunctionDef, ast.AsyncFunctionDef)) and fn.args.args or isinstance(fn, (ast.FunctionDef, ast.AsyncFunctionDef)) and fn.args.posonlyargs:
            first = (fn.args.posonlyargs + fn.args.args)[0].arg
            for n in ast.walk(fn):
                if isinstance(n, ast.Attribute) and isinstance(n.value, ast.Name) and n.value.id == first and isinstance(n.ctx, (ast.Store, ast.Del)):
                    out.add(n.attr)
    return out


def evaluate(case, env):

    out = core.Outcome()
    src = case["src"]
    if not srcgen.compiles(src):
        out.notes["generator_invalid"] += 1
        return out
    origin = case["from"].split(":")[0]
    feats = srcgen.features(src)
    for f in feats:
        out.labels[f] += 1
    out.labels["from:" + origin] += 1
    for feat, pred in FEATURE_PREDICATES.items():
        if feat in feats and env.known(pred):
            out.excluded[pred] += 1
            return out
    try:
        tree = ast.parse(src)
        root = rscope.build(tree)
    except RecursionError:
        out.notes["recursion"] += 1
        return out
    for hz in position_hazards(tree):
        out.labels[hz] += 1
        if env.known(POSITION_PREDICATES[hz]):
            out.excluded[POSITION_PREDICATES[hz]] += 1
            return out

    def vio(clause, detail):
        out.violation("C15:%s" % clause, "[%s] %s" % (origin, detail))

    out.evals += 1
    try:
        with warnings.catch_warnings():
            warnings.simplefilter("ignore")
            gscope = _fresh_module(src).get_scope()
    except RecursionError:
        out.notes["recursion"] += 1
        return out
    except Exception as e:
        vio("scope_construction_raised:" + type(e).__name__, repr(e)[:200])
        return out

    pairs = []  # (reference scope, rope scope)
    ok_tree = [True]

    def match(ref, rp):
        pairs.append((ref, rp))
        try:
            rkids = list(rp.get_scopes())
        except Exception as e:
            vio("get_scopes_raised:" + type(e).__name__, repr(e)[:200])
            ok_tree[0] = False
            return
        kids = [c for c in ref.children]
        if len(kids) != len(rkids) or any(_rope_kind(b) != (a.kind if a.kind != "lambda" else "lambda") for a, b in zip(kids, rkids)):
            ok_tree[0] = False
            vio(
                "scope_tree:%s" % ref.kind,
                "in %s %r (line %d): reference children %s, rope children %s"
                % (ref.kind, ref.name, ref.start, [(c.kind, c.name, c.start) for c in kids][:6], [(_rope_kind(c), c.get_start()) for c in rkids][:6]),
            )
            return
        for a, b in zip(kids, rkids):
            match(a, b)

    try:
        match(root, gscope)
    except RecursionError:
        out.notes["recursion"] += 1
        return out

    nscopes = 0
    for ref, rp in pairs:
        nscopes += 1
        if ref.kind == "module":
            continue
        out.evals += 1
        try:
            start, end = rp.get_start(), rp.get_end()
        except Exception as e:
            vio("extent_raised:" + type(e).__name__, "%s %r: %r" % (ref.kind, ref.name, e))
            continue
        if start != ref.start:
            vio("scope_start:%s" % ref.kind, "%s %r starts at %d, rope says %d" % (ref.kind, ref.name, ref.start, start))
        if ref.kind in ("function", "class") and end != ref.end:
            vio("scope_end:%s" % ref.kind, "%s %r (line %d) ends at %d, rope says %d" % (ref.kind, ref.name, ref.start, ref.end, end))

    # (2) owned names
    for ref, rp in pairs:
        out.evals += 1
        try:
            got = _owned(rp)
        except Exception as e:
            vio("names_raised:" + type(e).__name__, "%s %r: %r" % (ref.kind, ref.name, e))
            continue
        want = set(ref.bound)
        skip = set(ref.annotated_only) | (getattr(root, "global_assigned", set()) if True else set())
        if ref.kind == "function":
            # `global x` where the module itself never binds x: rope has nothing to alias and files x under the function
            # (the symbol table files it nowhere) - not compared; with a module-level binding ownership is decided by identity
            skip |= {g for g in ref.globals if g not in root.bound}
        weak_only = getattr(ref, "weak", set()) - getattr(ref, "strong", set()) - {a for a in ref.bound if False}
        weak_only = {n for n in weak_only if not _otherwise_bound(ref, n)}
        if weak_only:
            out.labels["aug_or_del_only_binding"] += 1
            # `del x` alone binds nothing rope has to know; an augmented assignment as the only binding is a recorded finding
            aug_only = {n for n in weak_only if n in _aug_targets(ref)}
            skip |= weak_only - aug_only
            if aug_only and env.known("augmented_assignment_only_binding"):
                out.excluded["augmented_assignment_only_binding"] += 1
                skip |= aug_only
        got_c, want_c = got - skip, want - skip
        if ref.kind == "class":
            # rope lists instance attributes assigned through the first parameter of methods among the
            # class's names (by design); they are not symbol-table bindings of the class body
            got_c -= _self_attrs(ref.node) - want_c
        if any(isinstance(x, ast.ImportFrom) and any(a.name == "*" for a in x.names) for x in ast.walk(ref.node)):
            out.labels["star_import"] += 1
            got_c &= want_c  # names brought in by a star import are not statically known
        if got_c != want_c:
            miss, extra = sorted(want_c - got_c), sorted(got_c - want_c)
            vio(
                "names:%s:%s" % (ref.kind, "missing" if miss and not extra else "extra" if extra and not miss else "both"),
                "%s %r (line %d): interpreter-bound but not in rope %s; in rope but not bound %s" % (ref.kind, ref.name, ref.start, miss[:6], extra[:6]),
            )

    # (2b) a name that the scope's own body binds only through def / class statements is the definition: its recorded
    #      definition line is the line of one of those statements (not, say, a later self.<name> = ... inside a method)
    for ref, rp in pairs:
        if ref.kind not in ("module", "class", "function") or not hasattr(ref.node, "body"):
            continue
        defs_ = {}
        other_ = set()
        for st_ in ref.node.body:
            if isinstance(st_, (ast.FunctionDef, ast.AsyncFunctionDef, ast.ClassDef)):
                defs_.setdefault(st_.name, set()).add(st_.lineno)
            else:
                for n_ in ast.walk(st_):
                    if isinstance(n_, ast.Name) and not isinstance(n_.ctx, ast.Load):
                        other_.add(n_.id)
                    elif isinstance(n_, (ast.FunctionDef, ast.AsyncFunctionDef, ast.ClassDef)):
                        other_.add(n_.name)
                    elif isinstance(n_, ast.alias):
                        other_.add((n_.asname or n_.name).split(".")[0])
                    elif isinstance(n_, (ast.Global, ast.Nonlocal)):
                        other_.update(n_.names)
        for name_, lines_ in sorted(defs_.items()):
            if name_ in other_ or name_ in getattr(ref, "globals", ()):
                continue
            out.evals += 1
            try:
                pn_ = rp.get_names().get(name_)
                loc_ = pn_.get_definition_location()[1] if pn_ is not None else None
            except Exception as e:
                vio("definition_line_raised:" + type(e).__name__, "%s in %s %r: %r" % (name_, ref.kind, ref.name, e))
                break
            if pn_ is not None and loc_ not in lines_:
                vio("definition_line:%s" % ref.kind, "%r is bound in %s %r by def/class at line(s) %s only; rope records line %s" % (name_, ref.kind, ref.name, sorted(lines_), loc_))
                break

    # (3) lookup
    if ok_tree[0]:
        rmap = {id(ref): rp for ref, rp in pairs}
        for ref, rp in pairs:
            seen = set()
            for name, node in ref.uses:
                if name in seen:
                    continue
                seen.add(name)
                target = rscope.resolve(ref, name)
                if target == "builtin-or-unbound":
                    continue
                if name in target.annotated_only and name not in target.bound:
                    continue
                out.evals += 1
                trp = rmap.get(id(target))
                if trp is None:
                    continue
                try:
                    found = rp.lookup(name)
                    tnames = trp.get_names() if trp.parent is not None else trp.pyobject.get_attributes()
                    held = tnames.get(name)
                except Exception as e:
                    vio("lookup_raised:" + type(e).__name__, "%r from %s %r: %r" % (name, ref.kind, ref.name, e))
                    break
                if held is None:
                    continue  # clause (2) reports the missing name
                if found is not held and ref.kind == "class" and target is not ref and (name in _self_attrs(ref.node) or ref.node.bases):
                    # input feature of a recorded finding: a name read in a class body that the body does not bind, while the
                    # class has an instance attribute of that name or has base classes (whose attributes rope also lists)
                    out.labels["class_body_use_vs_attribute_table"] += 1
                    if env.known("class_scope_names_are_the_attribute_table"):
                        out.excluded["class_scope_names_are_the_attribute_table"] += 1
                        continue
                if found is not held:
                    vio(
                        "lookup:%s->%s" % (ref.kind, target.kind),
                        "use of %r in %s %r (line %d) resolves to %s %r in Python; rope's lookup gives %s"
                        % (name, ref.kind, ref.name, getattr(node, "lineno", 0), target.kind, target.name, "nothing" if found is None else "a different binding"),
                    )
                    break

    # (4) scope holding a line / offset
    from props import c08_patchedast as c08

    c08_hazard = bool(feats & (set(c08.FEATURE_PREDICATES) | {"starred", "slice_empty_step", "annotations", "class_kw", "fstring_nested_quote"}))
    if c08_hazard:
        out.notes["offset_variant_skipped (C08 hazard in text)"] += 1
    if ok_tree[0]:
        lines = src.split("\n")
        starts = [0]
        for ln in lines:
            starts.append(starts[-1] + len(ln) + 1)
        rmap = {id(ref): rp for ref, rp in pairs}
        bad = False
        for ref, rp in pairs:
            if ref.kind not in ("module", "function", "class") or bad:
                continue
            for stn in ref.body_stmts:
                L = stn.lineno
                if ref.kind != "module" and L == ref.start:
                    continue  # one-line suite: shares the header line
                if lines[stn.lineno - 1].encode("utf-8")[: stn.col_offset].strip():
                    continue  # does not start its physical line (one-line suite or after ';' / a multi-line header)
                if any(o is not stn and o.lineno < stn.lineno <= o.end_lineno for o in ref.body_stmts):
                    continue  # starts on a continuation line of the previous statement (after ';')
                if getattr(stn, "decorator_list", None):
                    L = min(d.lineno for d in stn.decorator_list)
                out.evals += 1
                from rope.base import exceptions as rex

                try:
                    got = gscope.get_inner_scope_for_line(L)
                    line = lines[L - 1]
                    off = starts[L - 1] + (len(line) - len(line.lstrip()))
                    if c08_hazard:
                        # the offset variant reads patchedast regions; texts with a recorded C08 hazard are C08's business
                        got_o = got
                    else:
                        try:
                            got_o = gscope.get_inner_scope_for_offset(off)
                        except rex.RopeError:
                            out.notes["offset_variant_refused"] += 1
                            got_o = got
                except Exception as e:
                    vio("holding_scope_raised:" + type(e).__name__, "line %d: %r" % (L, e))
                    bad = True
                    break
                for how, g in (("line", got), ("offset", got_o)):
                    while g is not None and g is not rp and _rope_kind(g) == "comp":
                        g = g.parent
                    if isinstance(stn, (ast.FunctionDef, ast.AsyncFunctionDef, ast.ClassDef)) and g is not rp:
                        # the header line of a definition: rope may answer with the definition's own scope
                        inner = [c for c in ref.children if c.node is stn]
                        if inner and g is rmap.get(id(inner[0])):
                            continue
                    if g is not rp:
                        vio(
                            "holding_scope_%s:%s" % (how, ref.kind),
                            "line %d %r belongs to %s %r (line %d); rope answers %s at line %s"
                            % (L, lines[L - 1].strip()[:50], ref.kind, ref.name, ref.start, _rope_kind(g) if g is not None else None, g.get_start() if g is not None else None),
                        )
                        bad = True
                        break
                if bad:
                    break
                # continuation lines of a simple statement that spans several physical lines (and holds no scope of its
                # own) belong to the same scope as its first line
                if not hasattr(stn, "body") and stn.end_lineno > stn.lineno and not any(
                    isinstance(x, (ast.Lambda, ast.ListComp, ast.SetComp, ast.DictComp, ast.GeneratorExp)) for x in ast.walk(stn)
                ) and not any(isinstance(x, ast.Constant) and isinstance(x.value, (str, bytes)) and x.end_lineno > x.lineno for x in ast.walk(stn)):
                    for L2 in range(stn.lineno + 1, stn.end_lineno + 1):
                        if not lines[L2 - 1].strip() or lines[L2 - 1].lstrip().startswith("#"):
                            continue
                        if any(o is not stn and o.lineno <= L2 <= o.end_lineno for o in ref.body_stmts):
                            continue  # the line is shared with a further statement (after ';'), which may hold scopes of its own
                        ind2 = len(lines[L2 - 1]) - len(lines[L2 - 1].lstrip())
                        ind1 = len(lines[stn.lineno - 1]) - len(lines[stn.lineno - 1].lstrip())
                        if ind2 < ind1 or "\t" in lines[L2 - 1][:ind2] or "\t" in lines[stn.lineno - 1][:ind1]:
                            # input feature of a recorded finding: the continuation line is indented less than its statement
                            out.labels["dedented_continuation_line"] += 1
                            if env.known("dedented_continuation_line_held_by_outer_scope"):
                                out.excluded["dedented_continuation_line_held_by_outer_scope"] += 1
                                continue
                        out.evals += 1
                        try:
                            g2 = gscope.get_inner_scope_for_line(L2)
                        except Exception as e:
                            vio("holding_scope_raised:" + type(e).__name__, "line %d: %r" % (L2, e))
                            bad = True
                            break
                        if g2 is not rp:
                            out.labels["continuation_line_scope_differs"] += 1
                            vio(
                                "holding_scope_continuation_line:%s" % ref.kind,
                                "line %d %r continues the statement of line %d in %s %r; rope answers %s at line %s"
                                % (L2, lines[L2 - 1].strip()[:50], stn.lineno, ref.kind, ref.name, _rope_kind(g2) if g2 is not None else None, g2.get_start() if g2 is not None else None),
                            )
                            bad = True
                            break
                    if bad:
                        break

        # (4c) an offset inside a comprehension (its first target) is held by that comprehension's scope
        from rope.base import exceptions as rex

        if not bad and not c08_hazard:
            for ref, rp in pairs:
                if ref.kind != "comp" or rp is None or not getattr(ref.node, "generators", None):
                    continue
                probes = [ref.node.generators[0].target]
                elt = getattr(ref.node, "elt", None) or getattr(ref.node, "key", None)
                if isinstance(elt, ast.Name):
                    # the element: for a generator expression that is the sole argument of a call it is the very first
                    # character of the comprehension
                    probes.append(elt)
                stop = False
                for tgt in probes:
                    off = starts[tgt.lineno - 1] + len(lines[tgt.lineno - 1].encode("utf-8")[: tgt.col_offset].decode("utf-8"))
                    out.evals += 1
                    try:
                        g3 = gscope.get_inner_scope_for_offset(off)
                    except rex.RopeError:
                        out.notes["offset_variant_refused"] += 1
                        continue
                    except Exception as e:
                        vio("holding_scope_raised:" + type(e).__name__, "offset %d: %r" % (off, e))
                        stop = True
                        break
                    out.labels["offset_inside_comprehension"] += 1
                    if g3 is not rp:
                        vio(
                            "holding_scope_offset:comp",
                            "offset %d (%r, line %d) lies in the comprehension of line %d; rope answers %s at line %s"
                            % (off, src[off:off + 12], tgt.lineno, ref.start, _rope_kind(g3) if g3 is not None else None, g3.get_start() if g3 is not None else None),
                        )
                        stop = True
                        break
                if stop:
                    break

    deep = any(r.parent is not None and r.parent.parent is not None for r, _ in pairs) or nscopes >= 3
    if deep and feats & {"global", "nonlocal", "comprehension", "kwonly"} or any(r.kind == "class" and r.parent.kind == "function" for r, _ in pairs if r.parent is not None):
        out.nontrivial.add("t")
    return out
