"""C10 - a composite change is all-or-nothing under failure and interruption.

Outer quantifier (Hypothesis): tree x ChangeSet spec (dependent shapes favoured).
Inner quantifier (exhaustive per case): for do, undo and redo - every file-system call index at
which an OSError is injected (before the call; for write additionally after half the data), and
every job notification at which TaskHandle.stop() is issued.
Oracle: the call raises, the tree snapshot equals the snapshot before the call, and
undo_list/redo_list hold the same objects as before.
"""
import os
import sys

from hypothesis import strategies as st

from vlib import core, fsmodel

PID = "C10"
LEVEL = "fault_enumeration"
TECHNIQUE = "Hypothesis-generated change sets x exhaustive fault/stop-point injection, snapshot oracle"
RULE = (
    "case = (random tree, random ChangeSet of 2-7 leaf changes, nested <=2, built constructively on a tree model so the "
    "fault-free run succeeds); for each of do/undo/redo EVERY fs-call index (create_file, create_folder, move, remove, "
    "write, read) gets an injected OSError and EVERY job notification gets a TaskHandle.stop(); non-trivial = fault "
    "point with >=1 sub-change already applied in a change set that has a dependent leaf pair; distinct by "
    "(case hash, phase, fault kind, index)"
    "; half of the cases have a non-empty redo list before the faulty do; the injected failure alternates between an OSError and another Exception subclass"
)
ASSUMPTIONS = [
    "faults are injected at the Project(fscommands=...) interface and at JobSet notifications, not inside the OS",
    "a fault is transient: the fs call that failed once works again during rollback",
    "tree snapshot ignores mtimes (content, type and path only)",
]
EXHAUSTIVE_INNER = "all fs-call indices and all job notifications of every generated case, for do, undo and redo"
BUDGET = {"quick": (3200, 150), "thorough": (48000, 1800)}


@st.composite
def cases(draw):
    tree = draw(fsmodel.trees())
    spec, _after = draw(fsmodel.change_specs(tree, min_leaves=2, max_leaves=7, allow_rm=True))
    # an earlier change that was done and undone again: the redo list is not empty when the composite change is attempted
    return {"tree": tree, "spec": spec, "prior_undone": draw(st.booleans()), "undo_drop": draw(st.booleans()),
            # one more sub-change in the middle: a move INTO a folder that does not exist (an organically failing step)
            "move_to_missing": draw(st.integers(0, 4)) == 0}


def strategy(tier):
    return cases()


def describe(case):
    return {"tree": sorted(case["tree"]), "spec": case["spec"]}


class InjectedFault(OSError):
    pass


class InjectedOtherFault(Exception):
    """a failure that is neither an OSError nor a rope error (a codec error, a bug in a custom fscommands, ...)"""


def _make_fs(fail_at, partial, exc=InjectedFault):
    from rope.base import fscommands

    class Faulty(fscommands.FileSystemCommands):
        def __init__(self):
            self.n = 0
            self.armed = False
            self.log = []

        def _tick(self, what):
            if not self.armed:
                return False
            self.n += 1
            self.log.append(what)
            if self.n == fail_at:
                if partial and what == "write":
                    return True
                raise exc("injected fault at fs call %d (%s)" % (self.n, what))
            return False

        def create_file(self, p):
            self._tick("create_file")
            super().create_file(p)

        def create_folder(self, p):
            self._tick("create_folder")
            super().create_folder(p)

        def move(self, a, b):
            self._tick("move")
            super().move(a, b)

        def remove(self, p):
            self._tick("remove")
            super().remove(p)

        def write(self, p, d):
            if self._tick("write"):
                super().write(p, d[: len(d) // 2])
                raise exc("injected fault after partial write")
            super().write(p, d)

        def read(self, p):
            # a read issued by a resource observer while _ResourceOperations notifies it, i.e. after
            # the sub-change's own mutation has already been applied
            what = "read"
            if self.armed:
                f = sys._getframe(1)
                while f is not None:
                    if f.f_code.co_name in ("write_file", "move", "create", "remove") and f.f_code.co_filename.endswith("change.py"):
                        what = "read@observer"
                        break
                    f = f.f_back
            self._tick(what)
            return super().read(p)

    return Faulty()


def _setup(case, phase, fs):
    """returns (root, project, changes, callable performing the phase)"""
    from rope.base.project import Project

    root = core.fresh_dir("c10")
    fsmodel.write_tree(root, case["tree"])
    project = Project(root, fscommands=fs, ropefolder=None)
    if case.get("prior_undone") and phase == "do":
        from rope.base.change import ChangeSet, CreateResource

        prior = ChangeSet("prior")
        prior.add_change(CreateResource(project.root.get_child("zz_prior.txt") if project.root.has_child("zz_prior.txt") else project.get_file("zz_prior.txt")))
        project.do(prior)
        project.history.undo()
    changes = fsmodel.build_change(project, case["spec"], fsmodel.tree_bytes(case["tree"]))
    if case.get("move_to_missing") and phase == "do":
        from rope.base.change import MoveResource

        with open(os.path.join(root, "zz_mv_src.txt"), "w") as fh:
            fh.write("moved\n")
        changes.changes.insert(min(1, len(changes.changes)), MoveResource(project.get_file("zz_mv_src.txt"), "zz_gone/deeper/x.txt"))
    if phase in ("undo", "redo"):
        project.do(changes)
    if case.get("prior_undone") and phase == "undo":
        # the redo list is not empty when the undo is attempted (a later, unrelated change was done and undone)
        from rope.base.change import ChangeSet, CreateResource

        prior = ChangeSet("prior")
        prior.add_change(CreateResource(project.get_file("zz_prior.txt")))
        project.do(prior)
        project.history.undo()
    if phase == "redo":
        project.history.undo()
    return root, project, changes


def _run_phase(project, changes, phase, task_handle=None, drop=False):
    kw = {} if task_handle is None else {"task_handle": task_handle}
    if phase == "do":
        project.do(changes, **kw)
    elif phase == "undo":
        project.history.undo(drop=drop, **kw)
    else:
        project.history.redo(**kw)


def _leaves_done_at(log_or_none, spec, phase):
    return None


def evaluate(case, env):
    out = core.Outcome()
    spec = case["spec"]
    leaves = list(fsmodel.leaves(spec))
    has_rm = any(leaf[0] == "rm" for leaf in leaves)
    deps = fsmodel.dependent_pairs(spec)
    out.labels["leaves=%d" % len(leaves)] += 1
    out.labels["dependent" if deps else "independent"] += 1
    if any(s[0] == "set" for s in spec[2]):
        out.labels["nested"] += 1
    for leaf in leaves:
        out.labels["kind:" + leaf[0]] += 1

    for phase in ("do", "undo", "redo"):
        # ---- fault-free reference run: count fs calls and notifications
        fs = _make_fs(-1, False)
        root = None
        try:
            try:
                root, project, changes = _setup(case, phase, fs)
            except Exception:
                # undo of a RemoveResource (needed to set up the redo phase) is not implemented
                if phase == "redo" and has_rm:
                    out.excluded["rm_undo_not_implemented"] += 1
                    continue
                raise
            from rope.base import taskhandle

            notes = [0]
            th = taskhandle.TaskHandle("count")
            th.add_observer(lambda: notes.__setitem__(0, notes[0] + 1))
            fs.armed = True
            before = fsmodel.snapshot(root)
            hist = (list(project.history.undo_list), list(project.history.redo_list))
            try:
                _run_phase(project, changes, phase, th, drop=bool(case.get("undo_drop")))
                natural_error = None
            except Exception as e:  # RemoveResource.undo raises NotImplementedError
                natural_error = e
            n_calls = fs.n
            call_log = list(fs.log)
            n_notes = notes[0]
            if natural_error is not None:
                # an organically failing composite operation: the same oracle applies
                out.evals += 1
                out.labels["natural_failure:" + type(natural_error).__name__] += 1
                if isinstance(natural_error, NotImplementedError) and env.known("rm_undo_not_implemented"):
                    out.excluded["rm_undo_not_implemented"] += 1
                else:
                    _judge(out, phase, "natural", 0, root, project, before, hist, raised=True, applied=1, deps=deps)
                continue
        finally:
            if root:
                core.rmtree(root)

        # ---- every fs-call index
        modes = [("oserror", False)]
        if not env.known("partial_write_not_restored"):
            modes.append(("partialwrite", True))
        else:
            out.excluded["partial_write_not_restored"] += sum(1 for w in call_log if w == "write")
        for kind, partial in modes:
            for i in range(1, n_calls + 1):
                if partial and call_log[i - 1] != "write":
                    continue
                if phase == "do" and has_rm and env.known("rm_undo_not_implemented") and _rm_before_call(spec, call_log, i):
                    out.excluded["rm_undo_not_implemented"] += 1
                    continue
                if call_log[i - 1] == "read@observer" and env.known("fault_in_observer_read"):
                    out.excluded["fault_in_observer_read"] += 1
                    continue
                # the class of the failure alternates with the fault index: "all-or-nothing under failure" is not about OSError
                fs = _make_fs(i, partial, InjectedOtherFault if (i + len(call_log)) % 3 == 0 else InjectedFault)
                root, project, changes = _setup(case, phase, fs)
                try:
                    before = fsmodel.snapshot(root)
                    hist = (list(project.history.undo_list), list(project.history.redo_list))
                    fs.armed = True
                    raised = False
                    try:
                        _run_phase(project, changes, phase, drop=bool(case.get("undo_drop")))
                    except Exception:
                        raised = True
                    fs.armed = False
                    out.evals += 1
                    applied = sum(1 for w in call_log[: i - 1] if not w.startswith("read")) + (1 if partial else 0)
                    _judge(out, phase, kind, i, root, project, before, hist, raised, applied, deps, what=call_log[i - 1])
                finally:
                    core.rmtree(root)

        # ---- every job notification
        for j in range(1, n_notes + 1):
            if phase == "do" and has_rm and env.known("rm_undo_not_implemented") and _rm_before_note(spec, j):
                out.excluded["rm_undo_not_implemented"] += 1
                continue
            fs = _make_fs(-1, False)
            root, project, changes = _setup(case, phase, fs)
            try:
                from rope.base import taskhandle

                th = taskhandle.TaskHandle("stop")
                cnt = [0]

                def obs():
                    cnt[0] += 1
                    if cnt[0] == j:
                        th.stop()

                th.add_observer(obs)
                before = fsmodel.snapshot(root)
                hist = (list(project.history.undo_list), list(project.history.redo_list))
                raised = False
                try:
                    _run_phase(project, changes, phase, th, drop=bool(case.get("undo_drop")))
                except Exception as e_:
                    raised = True
                    from rope.base import exceptions as rex

                    if not isinstance(e_, rex.InterruptedTaskError):
                        # "reports the error": the interruption, not a second failure met while cleaning up
                        if isinstance(e_, NotImplementedError) and env.known("rm_undo_not_implemented"):
                            out.excluded["rm_undo_not_implemented"] += 1
                        else:
                            out.violation("C10:%s:stop:other_error_reported:%s" % (phase, type(e_).__name__), "stop at notification %d: %r" % (j, e_), {"phase": phase, "fault": "stop", "index": j})
                out.evals += 1
                if j == n_notes and not raised:
                    # stop requested in the very last notification: nothing is left to interrupt
                    out.labels["stop_after_last_job"] += 1
                    continue
                _judge(out, phase, "stop", j, root, project, before, hist, raised, applied=j // 2 + (j % 2), deps=deps)
            finally:
                core.rmtree(root)
    return out


def _rm_before_call(spec, call_log, i):
    """is a RemoveResource leaf already applied when fs call i (1-based) is attempted?"""
    return "remove" in call_log[: i - 1] and any(leaf[0] == "rm" for leaf in fsmodel.leaves(spec))


def _rm_before_note(spec, j):
    """notifications come in pairs (started, finished) per leaf; stop at notification j interrupts at the next
    check: j odd -> leaf (j+1)/2 has been applied when the error surfaces (finished_job), j even -> leaves up to j/2"""
    leaves = list(fsmodel.leaves(spec))
    applied = (j + 1) // 2
    return any(leaf[0] == "rm" for leaf in leaves[:applied])


def _judge(out, phase, kind, idx, root, project, before, hist, raised, applied, deps, what=""):
    after = fsmodel.snapshot(root)
    sub = {"phase": phase, "fault": kind, "index": idx, "fs_call": what}
    if not raised:
        out.violation("C10:%s:%s:error_not_reported" % (phase, kind), "fault %s#%d (%s) was swallowed" % (kind, idx, what), sub)
    if after != before:
        out.violation(
            "C10:%s:%s:tree_not_restored" % (phase, kind),
            "after failed %s with %s at %d (%s): %s" % (phase, kind, idx, what, fsmodel.diff_trees(before, after)),
            sub,
        )
    now = (list(project.history.undo_list), list(project.history.redo_list))
    if len(now[0]) != len(hist[0]) or len(now[1]) != len(hist[1]) or any(a is not b for a, b in zip(now[0] + now[1], hist[0] + hist[1])):
        out.violation(
            "C10:%s:%s:history_changed" % (phase, kind),
            "undo/redo lists %d/%d -> %d/%d" % (len(hist[0]), len(hist[1]), len(now[0]), len(now[1])),
            sub,
        )
    if applied >= 1 and deps:
        out.nontrivial.add((phase, kind, idx))
