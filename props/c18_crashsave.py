"""C18 - an interrupted save never leaves a project that cannot be opened.

Case = a history (do/undo/redo/analyse/reopen) ending in project.close().  During that final close the
checking process records, in program order, every truncating open, write, close, rename/replace and
remove that touches the rope folder.  Crash states = the pre-close rope folder with the first e events
applied, and for every write event additionally EVERY byte prefix of the written data.  For each state
a scratch copy of the project is opened and must work, and the loaded history / object info must be the
complete old version, the complete new version, or empty.
"""
import builtins
import io
import os
import shutil

from hypothesis import strategies as st

from vlib import core, fsmodel

PID = "C18"
LEVEL = "fault_enumeration"
TECHNIQUE = "crash-point enumeration: recorded save events x every byte prefix, reopen oracle (Hypothesis-generated histories)"
RULE = (
    "case = history of 2-10 ops (do edit/create/move, undo, redo, static analysis of a module, close+reopen) ending in "
    "close(); ALL event boundaries and ALL byte prefixes of every write to a pickle data file during that close are "
    "materialised as crash states (json side files, which rope never reads back: event boundaries only); non-trivial = "
    "state strictly inside a write of a non-empty data file; distinct by (case hash, event index, prefix length)"
    "; after every event-boundary crash state a recovery session (reopen, clear the history, close normally, reopen) must leave a readable project"
)
ASSUMPTIONS = [
    "writes reach the disk in program order (no block reordering, no torn sectors); a crash loses everything after the cut",
    "data counts as on disk only once Python hands it to the OS (buffer of 8 KiB full, flush or close); observation is at the Python file-object level (open/write/close/os.replace/os.rename/os.remove patched in-process); "
    "a self-check replays all events and must reproduce the real post-close bytes",
]
EXHAUSTIVE_INNER = "every event boundary and every byte prefix of every data-file write of the final close()"
BUDGET = {"quick": (320, 240), "thorough": (6400, 2400)}

MOD = "class C:\n    def m(self, p):\n        return p\ndef f(a, b=None):\n    return a\nv = f(C(), [1])\nw = C().m('s')\nl = []\nl.append(C())\n"


@st.composite
def cases(draw):
    n = draw(st.integers(2, 9))
    ops = []
    for _ in range(n):
        r = draw(st.integers(0, 9))
        if r <= 3:
            nleaf = draw(st.sampled_from([1, 1, 2]))
            ops.append(["do", [list(draw(st.tuples(st.integers(0, 6), st.integers(0, 7), st.integers(0, 7)))) for _ in range(nleaf)], False])
        elif r <= 4:
            ops.append(["undo"])
        elif r == 5:
            ops.append(["redo"])
        elif r <= 7:
            ops.append(["analyze"])
        else:
            ops.append(["reopen"])
    # the data files of the rope folder may be symbolic links to files kept elsewhere (a shared settings folder)
    return {"ops": ops, "symlinked_data": draw(st.integers(0, 2)) == 0}


def strategy(tier):
    return cases()


def describe(case):
    return case


# ---------------------------------------------------------------- recording


class _Rec:
    def __init__(self, ropedir):
        self.ropedir = os.path.realpath(ropedir)
        self.events = []
        self.files = []

    @staticmethod
    def _where(path):
        # the directory is resolved, the entry itself is not: a data file that is a symbolic link is still that entry
        p = os.path.abspath(os.fspath(path))
        return os.path.join(os.path.realpath(os.path.dirname(p)), os.path.basename(p))

    def inside(self, path):
        try:
            p = self._where(path)
        except TypeError:
            return False
        return p.startswith(self.ropedir + os.sep)

    def rel(self, path):
        return os.path.relpath(self._where(path), self.ropedir)


class _RecFile:
    def __init__(self, rec, real, rel, text):
        self._rec, self._real, self._rel, self._text = rec, real, rel, text
        self._pending = b""
        rec.files.append(self)

    def write(self, data):
        # what the program writes sits in the file object's buffer; it reaches the disk (in the
        # model) only when Python hands it to the OS: buffer full, flush() or close()
        b = data.encode(self._real.encoding or "utf-8") if self._text else bytes(data)
        hit = self._rec.interrupt
        if hit is not None and self._rel.endswith(hit[0]) and not hit[2]:
            # exception-style interruption (Ctrl-C, SIGTERM handler, disk full): part of the data goes out, then the write raises
            hit[2] = True
            part = data[: max(1, min(hit[1], len(data) - 1))] if len(data) > 1 else data
            self._real.write(part)
            self._real.flush()
            raise KeyboardInterrupt("interrupted save")
        self._pending += b
        if len(self._pending) >= 8192:
            self._emit()
        return self._real.write(data)

    def _emit(self):
        if self._pending:
            self._rec.events.append(("write", self._rel, self._pending))
            self._pending = b""

    def flush(self):
        self._emit()
        return self._real.flush()

    def writelines(self, lines):
        for line in lines:
            self.write(line)

    def close(self):
        if not self._real.closed:
            self._emit()
            self._rec.events.append(("close", self._rel))
        return self._real.close()

    def __enter__(self):
        return self

    def __exit__(self, *a):
        self.close()
        return False

    def __getattr__(self, name):
        return getattr(self._real, name)


def record_close(project, ropedir, interrupt=None):
    """run project.close() with the save path instrumented; returns the event list.
    interrupt = [file name suffix, bytes to let through, False]: the first write to that file raises KeyboardInterrupt"""
    rec = _Rec(ropedir)
    rec.interrupt = interrupt
    real_open, real_io_open = builtins.open, io.open
    real_replace, real_rename, real_remove, real_unlink = os.replace, os.rename, os.remove, os.unlink

    def my_open(file, mode="r", *a, **kw):
        f = real_open(file, mode, *a, **kw)
        if isinstance(file, (str, bytes, os.PathLike)) and rec.inside(file) and any(c in mode for c in "wax+"):
            rel = rec.rel(file)
            if "w" in mode:
                rec.events.append(("trunc", rel))
            elif "x" in mode:
                rec.events.append(("trunc", rel))
            else:
                rec.events.append(("openappend", rel))
            return _RecFile(rec, f, rel, "b" not in mode)
        return f

    def _renamed(s, d):
        rec.events.append(("replace", s, d))
        for f in rec.files:  # an open handle follows its inode
            if f._rel == s and not f._real.closed:
                f._rel = d

    def my_replace(src, dst, *a, **kw):
        r = real_replace(src, dst, *a, **kw)
        if rec.inside(src) or rec.inside(dst):
            _renamed(rec.rel(src), rec.rel(dst))
        return r

    def my_rename(src, dst, *a, **kw):
        r = real_rename(src, dst, *a, **kw)
        if rec.inside(src) or rec.inside(dst):
            _renamed(rec.rel(src), rec.rel(dst))
        return r

    def my_remove(path, *a, **kw):
        r = real_remove(path, *a, **kw)
        if rec.inside(path):
            rec.events.append(("remove", rec.rel(path)))
        return r

    builtins.open = io.open = my_open
    os.replace, os.rename, os.remove, os.unlink = my_replace, my_rename, my_remove, my_remove
    try:
        try:
            project.close()
        except KeyboardInterrupt:
            if interrupt is None:
                raise
    finally:
        builtins.open, io.open = real_open, real_io_open
        os.replace, os.rename, os.remove, os.unlink = real_replace, real_rename, real_remove, real_unlink
    return rec.events


def apply_events(state, events):
    """state: {relpath: bytes}; returns the folder content after the events (appends unsupported -> harness error)"""
    s = dict(state)
    for ev in events:
        k = ev[0]
        if k == "trunc":
            s[ev[1]] = b""
        elif k == "write":
            s[ev[1]] = s.get(ev[1], b"") + ev[2]
        elif k == "replace":
            if ev[1] in s:
                s[ev[2]] = s.pop(ev[1])
        elif k == "remove":
            s.pop(ev[1], None)
        elif k == "openappend":
            raise core.HarnessError("append-mode write to the rope folder is not modelled")
    return s


def read_folder(d):
    out = {}
    if not os.path.isdir(d):
        return out
    for cur, dirs, files in os.walk(d):
        for f in files:
            fp = os.path.join(cur, f)
            with open(fp, "rb") as h:
                out[os.path.relpath(fp, d)] = h.read()
    return out


# ---------------------------------------------------------------- evaluation

TREE = {"a.py": "x = 1\n", "b.py": "y = 'ü'\n", "mod.py": MOD, "pk/": None, "pk/c.py": "z = 3\n"}


def _open(root):
    from rope.base.project import Project

    return Project(root, save_history=True, save_objectdb=True)


def _observe(project):
    """plain-data image of what the project loaded: (undo data, redo data), objectdb image"""
    from props.c12_reopen import _lists_data, _odb_image

    return _lists_data(project), _odb_image(project)


def _rebuild(case, root):
    """replay the case's history on a fresh directory up to (not including) the final close()"""
    from props import c11_history as c11

    fsmodel.write_tree(root, TREE)
    project = _open(root)
    old_obs = (([], []), {})
    step = 0
    tree_now = fsmodel.snapshot(root)
    for op in case["ops"]:
        step += 1
        if op[0] == "do":
            spec = c11._resolve_do(tree_now, op, step, allow_rm=False)
            project.do(fsmodel.build_change(project, spec, tree_now))
        elif op[0] == "undo" and project.history.undo_list:
            project.history.undo()
        elif op[0] == "redo" and project.history.redo_list:
            project.history.redo()
        elif op[0] == "analyze":
            mods = [p for p in sorted(tree_now) if p.endswith(".py")]
            project.pycore.analyze_module(project.get_file(mods[step % len(mods)]))
        elif op[0] == "reopen":
            old_obs = _observe(project)
            project.close()
            project = _open(root)
        tree_now = fsmodel.snapshot(root)
    return project, old_obs, _observe(project)


def _interrupted_by_exception(case, out, old_obs, new_obs, empty_obs, pyfile):
    """the save is interrupted by an exception raised inside a write (not a hard kill): whatever clean-up code runs while
    the exception unwinds must not turn a partial file into the data file"""
    from props.c12_reopen import type_exact_equal

    for target, nbytes in (("history.tmp", 1), ("objectdb.tmp", 1), ("history.tmp", 40), ("history", 1), ("objectdb", 1)):
        root = core.fresh_dir("c18x")
        project = None
        try:
            project, old_obs, new_obs = _rebuild(case, root)
            hit = [target, nbytes, False]
            record_close(project, os.path.join(root, ".ropeproject"), interrupt=hit)
            project = None
            if not hit[2]:
                continue  # that file is not written by this save
            out.evals += 1
            out.labels["exception_interruption"] += 1
            sub = {"interrupted_write_to": target, "after_bytes": nbytes}
            try:
                p2 = _open(root)
            except Exception as ex:
                out.violation("C18:exception_interruption:open_raises:" + type(ex).__name__, "write to %s interrupted by an exception after %d byte(s): Project() raised %r" % (target, nbytes, ex), sub)
                return
            try:
                try:
                    obs = _observe(p2)
                    p2.get_pymodule(p2.get_file(pyfile)).get_attributes()
                except Exception as ex:
                    out.violation("C18:exception_interruption:unreadable:" + type(ex).__name__, "write to %s interrupted by an exception after %d byte(s): %r" % (target, nbytes, ex), sub)
                    return
                if not any(type_exact_equal(obs[0], v[0]) for v in (old_obs, new_obs, empty_obs)) or not any(type_exact_equal(obs[1], v[1]) for v in (old_obs, new_obs, empty_obs)):
                    out.violation("C18:exception_interruption:mixed_version", "write to %s interrupted after %d byte(s)" % (target, nbytes), sub)
                    return
            finally:
                p2.data_files.hooks[:] = []
                try:
                    p2.close()
                except Exception:
                    pass
        finally:
            if project is not None:
                project.data_files.hooks[:] = []
                try:
                    project.close()
                except Exception:
                    pass
            core.rmtree(root)


def evaluate(case, env):
    from props import c11_history as c11
    from props.c12_reopen import type_exact_equal

    out = core.Outcome()
    root = core.fresh_dir("c18")
    scratch = None
    project = None
    try:
        fsmodel.write_tree(root, TREE)
        project = _open(root)
        ropedir = os.path.join(root, ".ropeproject")
        old_obs = (([], []), {})
        step = 0
        tree_now = fsmodel.snapshot(root)
        for op in case["ops"]:
            step += 1
            if op[0] == "do":
                spec = c11._resolve_do(tree_now, op, step, allow_rm=False)
                project.do(fsmodel.build_change(project, spec, tree_now))
            elif op[0] == "undo" and project.history.undo_list:
                project.history.undo()
            elif op[0] == "redo" and project.history.redo_list:
                project.history.redo()
            elif op[0] == "analyze":
                mods = [p for p in sorted(tree_now) if p.endswith(".py")]
                project.pycore.analyze_module(project.get_file(mods[step % len(mods)]))
            elif op[0] == "reopen":
                old_obs = _observe(project)
                project.close()
                project = _open(root)
            tree_now = fsmodel.snapshot(root)
        if case.get("symlinked_data"):
            old_obs = _observe(project)
            project.close()
            shared = os.path.join(os.path.dirname(root), os.path.basename(root) + "_shared")
            os.makedirs(shared, exist_ok=True)
            for name in sorted(os.listdir(ropedir)):
                full = os.path.join(ropedir, name)
                if os.path.isfile(full) and not os.path.islink(full) and not name.endswith((".py", ".tmp")):
                    shutil.move(full, os.path.join(shared, name))
                    os.symlink(os.path.join(shared, name), full)
            out.labels["symlinked_data_files"] += 1
            project = _open(root)
            # one more change, so that the final save has something new to write
            extra = sorted(p for p in fsmodel.snapshot(root) if p.endswith(".py"))[0]
            from rope.base.change import ChangeContents

            project.do(ChangeContents(project.get_file(extra), project.get_file(extra).read() + "# more\n"))
            project.pycore.analyze_module(project.get_file(extra))
        new_obs = _observe(project)
        pre = read_folder(ropedir)
        events = record_close(project, ropedir)
        project = None
        post = read_folder(ropedir)
        if apply_events(pre, events) != post:
            raise core.HarnessError("event replay does not reproduce the saved rope folder (an unobserved write path)")
        empty_obs = (([], []), {})
        out.labels["events=%d" % min(len(events), 20)] += 1
        if old_obs != empty_obs:
            out.labels["has_old_version"] += 1

        # ---- enumerate crash states
        proj_files = fsmodel.snapshot(root)
        scratch = core.fresh_dir("c18s")
        sroot = os.path.join(scratch, "p")
        fsmodel.write_tree(sroot, {p: v for p, v in proj_files.items()})
        sdir = os.path.join(sroot, ".ropeproject")
        seen = set()
        pyfile = sorted(p for p in proj_files if p.endswith(".py"))[-1]
        _interrupted_by_exception(case, out, old_obs, new_obs, empty_obs, pyfile)
        for e in range(len(events) + 1):
            base_state = apply_events(pre, events[:e])
            states = [(e, None, base_state)]
            if e < len(events) and events[e][0] == "write" and not events[e][1].endswith(".json") and not events[e][1].endswith(".json.tmp"):
                data = events[e][2]
                for k in range(1, len(data)):
                    st_ = dict(base_state)
                    st_[events[e][1]] = st_.get(events[e][1], b"") + data[:k]
                    states.append((e, k, st_))
            for (ei, k, state) in states:
                key = tuple(sorted(state.items()))
                if key in seen:
                    continue
                seen.add(key)
                _materialise(sdir, state)
                out.evals += 1
                sub = {"event": ei, "prefix": k, "event_kind": events[ei][0] if ei < len(events) else "end", "file": events[ei][1] if ei < len(events) else ""}
                nontrivial = k is not None and len(events[ei][2]) > 1
                try:
                    p2 = _open(sroot)
                except Exception as ex:
                    out.violation("C18:open_raises:" + type(ex).__name__, "state %r: Project() raised %r" % (sub, ex), sub)
                    continue
                try:
                    try:
                        obs = _observe(p2)
                    except Exception as ex:
                        out.violation("C18:history_or_objectdb_unreadable:" + type(ex).__name__, "state %r: %r" % (sub, ex), sub)
                        continue
                    try:
                        p2.get_pymodule(p2.get_file(pyfile)).get_attributes()
                        p2.pycore.analyze_module(p2.get_file(pyfile))
                    except Exception as ex:
                        out.violation("C18:analysis_raises:" + type(ex).__name__, "state %r: %r" % (sub, ex), sub)
                        continue
                    if not any(type_exact_equal(obs[0], v[0]) for v in (old_obs, new_obs, empty_obs)):
                        out.violation("C18:history_mixed_version", "state %r: loaded history is neither old, new nor empty" % (sub,), sub)
                    if not any(type_exact_equal(obs[1], v[1]) for v in (old_obs, new_obs, empty_obs)):
                        out.violation("C18:objectdb_mixed_version", "state %r: loaded objectdb is neither old, new nor empty" % (sub,), sub)
                    if nontrivial:
                        out.nontrivial.add((ei, k))
                finally:
                    # do not let the scratch project save anything
                    p2.data_files.hooks[:] = []
                    try:
                        p2.close()
                    except Exception:
                        pass
                if k is None and not out.violations:
                    # recovery: after the crash the user goes on working - a session that forgets the history (so that
                    # LESS is saved than the interrupted save had written) and closes normally must leave a readable
                    # project too; whatever the crash left behind (temporary files) must not leak into the next save
                    out.evals += 1
                    p3 = None
                    try:
                        p3 = _open(sroot)
                        p3.history.clear()
                        p3.close()
                        p3 = _open(sroot)
                        obs3 = _observe(p3)
                        if obs3[0] != empty_obs[0] and not type_exact_equal(obs3[0], empty_obs[0]):
                            out.violation("C18:recovery:history_not_empty_after_clear", "state %r" % (sub,), sub)
                        out.labels["recovery_session"] += 1
                    except Exception as ex:
                        out.violation("C18:recovery:next_session_unreadable:" + type(ex).__name__, "after crash state %r, a session that cleared the history and closed normally left: %r" % (sub, ex), sub)
                    finally:
                        if p3 is not None:
                            p3.data_files.hooks[:] = []
                            try:
                                p3.close()
                            except Exception:
                                pass
    finally:
        if project is not None:
            try:
                project.close()
            except Exception:
                pass
        core.rmtree(root)
        if scratch:
            core.rmtree(scratch)
    return out


def _materialise(sdir, state):
    shutil.rmtree(sdir, ignore_errors=True)
    os.makedirs(sdir)
    for rel, data in state.items():
        fp = os.path.join(sdir, rel)
        os.makedirs(os.path.dirname(fp), exist_ok=True)
        with open(fp, "wb") as f:
            f.write(data)
