"""C16 - files survive rope byte-for-byte apart from the intended edit.

Case = lines x codec x newline convention x final newline x (cookie position | BOM | undeclared UTF-8).
The harness builds the file's bytes itself, then for the same file:
 (1) project.do(ChangeContents(f, f.read())) and File.write(File.read()) leave the bytes identical;
 (2) for EVERY line k (not the cookie line): replace line k in rope's decoded text, perform the change,
     expect exactly the harness-built bytes with that line replaced (same codec, newline, final newline);
     undo restores the original bytes;
 (3) a Rename performed in a python file of that codec/newline changes only the renamed tokens' bytes;
 (4) text written through rope to a new file reads back equal;
 (5) newline convention converted outside rope between two uses of one File object; (6) undo / redo in a later session;
 (7) MoveGlobal into a module of this codec / newline / cookie layout keeps the destination's lines and its encoding;
 (8) a character the declared encoding cannot represent is either refused (bytes intact) or written correctly.
"""
import codecs
import os
import re

from hypothesis import strategies as st

from vlib import core

PID = "C16"
LEVEL = "exploration"
TECHNIQUE = "byte-level round-trip and differential testing (Hypothesis: text x codec x newline x cookie), expected bytes built independently"
RULE = (
    "lines over a per-codec alphabet (only characters the codec round-trips; no CR/LF inside lines) x 16 ASCII-compatible "
    "codecs declared by a PEP 263 cookie on line 1 or 2, or undeclared UTF-8 with/without BOM x {LF, CRLF, CR} x "
    "with/without final newline; inner loop: every line as the edited one; non-trivial = a non-ASCII character and "
    "(codec != utf-8 or newline != LF or no final newline); distinct by case hash"
    "; plus the newline convention converted outside rope between two uses of the same File object; nine cookie spellings (incl. `encoding:` / `fileencoding=` and a form feed before or as the line above the cookie)"
    "; MoveGlobal into a module with the same header layout; an edit asking for a character outside the declared charset"
)
ASSUMPTIONS = [
    "UTF-16/32 and other non-ASCII-compatible codecs are not valid Python source encodings and are outside the domain",
    "newline convention is consistent within a file; in-memory text is LF-normalised (rope's documented representation)",
]
BUDGET = {"quick": (20000, 200), "thorough": (120000, 2400)}

CODECS = ["utf-8", "latin-1", "cp1252", "iso-8859-15", "cp437", "shift_jis", "euc-jp", "koi8-r", "cp1251", "gbk", "big5", "euc-kr", "iso-8859-2", "cp850", "mac-roman", "ascii"]
COOKIE_STYLES = [
    "# -*- coding: %s -*-", "# coding=%s", "# vim: set fileencoding=%s :", "#!/usr/bin/python\n# -*- coding: %s -*-", "  # coding: %s",
    # other spellings PEP 263 accepts: the word before "coding", a form feed before the comment or as the whole first line
    "# -*- encoding: %s -*-", "# This Python file uses the following encoding: %s", "#!/usr/bin/python\n\x0c# -*- coding: %s -*-", "\x0c\n# coding: %s",
]
CANDIDATES = (
    [chr(c) for c in range(32, 127)]
    + list("\téüñßæø€ΩλÅçÐþ¿¡«»±µ¶")
    + list("кириллицаЖЫ")
    + list("中日本語한글ｱｲ")
    + list("ąęłžőű")
    + list("✓😀→")
    + ["\x0c"]
)
_ALPHA = {}


def alphabet(codec):
    if codec not in _ALPHA:
        ok = []
        for ch in CANDIDATES:
            try:
                if ch.encode(codec).decode(codec) == ch:
                    ok.append(ch)
            except UnicodeError:
                pass
        _ALPHA[codec] = ok
    return _ALPHA[codec]


@st.composite
def cases(draw):
    codec = draw(st.sampled_from(CODECS))
    alpha = alphabet(codec)
    nonascii = [c for c in alpha if ord(c) > 127]
    line = st.text(alphabet=st.sampled_from(alpha), max_size=12)
    if nonascii:
        line = st.one_of(line, st.tuples(line, st.sampled_from(nonascii), line).map("".join))
    lines = draw(st.lists(line, min_size=0, max_size=6))
    declared = draw(st.sampled_from(["cookie", "cookie", "none", "bom"])) if codec == "utf-8" else "cookie"
    if codec == "ascii":
        declared = draw(st.sampled_from(["cookie", "none"]))
    cookie = None
    if declared == "cookie":
        cookie = draw(st.sampled_from(COOKIE_STYLES)) % codec
    return {
        "codec": codec,
        "declared": declared,
        "cookie": cookie,
        "lines": lines,
        "nl": draw(st.sampled_from(["\n", "\r\n", "\r"])),
        "final_nl": draw(st.booleans()),
        "repl": draw(line),
        "new_name": draw(st.sampled_from(["gamma_new", "z9", "Renamed"])),
    }


def strategy(tier):
    return cases()


def describe(case):
    return case


def _all_lines(case):
    lines = list(case["lines"])
    cookie_idx = set()
    if case["cookie"]:
        cl = case["cookie"].split("\n")
        lines = cl + lines
        cookie_idx = set(range(len(cl)))
    # a random line must not look like a coding cookie (lines 1-2 are inspected by PEP 263)
    lines = [ln if i in cookie_idx or "coding" not in ln else ln.replace("coding", "c_ding") for i, ln in enumerate(lines)]
    return lines, cookie_idx


def build_bytes(lines, case):
    codec = case["codec"]
    text = case["nl"].join(lines) + (case["nl"] if case["final_nl"] and lines else "")
    data = text.encode(codec)
    if case["declared"] == "bom":
        data = codecs.BOM_UTF8 + data
    return data


def evaluate(case, env):
    out = core.Outcome()
    try:
        return _evaluate(case, env, out)
    except core.HarnessError:
        raise
    except Exception as e:
        import traceback

        tb = traceback.extract_tb(e.__traceback__)
        if any("/rope/" in f.filename for f in tb):
            # an in-domain read / write / rename raised inside rope
            out.violation("C16:raised:" + type(e).__name__, repr(e)[:300])
            return out
        raise


def _evaluate(case, env, out):
    from rope.base import change as ch
    from rope.base.project import Project

    lines, cookie_idx = _all_lines(case)
    original = build_bytes(lines, case)
    root = core.fresh_dir("c16")
    project = None
    try:
        fp = os.path.join(root, "f.py")
        with open(fp, "wb") as f:
            f.write(original)
        project = Project(root, ropefolder=None)
        res = project.get_file("f.py")
        nonascii = any(ord(c) > 127 for ln in lines for c in ln)
        multi = len(lines) >= 2 or (len(lines) == 1 and case["final_nl"])
        nontrivial = nonascii and (case["codec"] != "utf-8" or (case["nl"] != "\n" and multi) or not case["final_nl"])
        out.labels["codec:" + case["codec"]] += 1
        out.labels["nl:" + repr(case["nl"])] += 1
        out.labels["declared:" + case["declared"]] += 1

        ff_first = bool(case.get("cookie")) and case["cookie"].startswith("\x0c\n")
        if ff_first and case["nl"] == "\r":
            # input feature of a recorded finding: CR-only file whose first line is not a comment, cookie on line 2
            out.labels["cr_only_cookie_after_non_comment_line"] += 1
            if env.known("cr_only_file_cookie_on_line_two_after_non_comment_line"):
                out.excluded["cr_only_file_cookie_on_line_two_after_non_comment_line"] += 1
                return out
        # (1) identity write
        text = res.read()
        project.do(ch.ChangeContents(res, text))
        out.evals += 1
        got = _read(fp)
        if got != original:
            out.violation("C16:identity_change", _bd(original, got))
            return out
        res.write(res.read())
        if _read(fp) != original:
            out.violation("C16:identity_write", _bd(original, _read(fp)))
            return out
        want_text = "\n".join(lines) + ("\n" if case["final_nl"] and lines else "")
        if case["declared"] == "bom":
            want_text = "﻿" + want_text
        if text != want_text and len(lines) + (1 if case["final_nl"] else 0) > 0:
            # the decoded view must be the LF-normalised text (basis of every refactoring)
            if case["nl"] != "\r" or True:
                out.violation("C16:decoded_text", "read() gave %r, expected %r" % (text[:80], want_text[:80]))
                return out

        # (2) every line as the edited one
        tl = text.split("\n")
        for k in range(len(lines)):
            if k in cookie_idx:
                continue
            if k == 0 and case["declared"] == "bom":
                continue
            repl = case["repl"].replace("coding", "c_ding")
            new_lines = list(lines)
            new_lines[k] = repl
            if len(lines) == 1 and not case["final_nl"]:
                pass
            new_tl = list(tl)
            new_tl[k] = repl
            expected = build_bytes(new_lines, case)
            if case["nl"] != "\n" and not _has_newline(new_lines, case):
                # a text without any line break carries no newline convention
                pass
            project.do(ch.ChangeContents(res, "\n".join(new_tl)))
            out.evals += 1
            got = _read(fp)
            if got != expected:
                out.violation("C16:edit_line:%s" % _why(case), "line %d: %s" % (k, _bd(expected, got)), {"k": k})
                project.history.undo()
                break
            project.history.undo()
            got = _read(fp)
            if got != original:
                out.violation("C16:undo_bytes", "line %d: %s" % (k, _bd(original, got)), {"k": k})
                break

        # (3) rename inside a python file of this codec / newline convention
        alpha = [c for c in alphabet(case["codec"]) if ord(c) > 127][:3]
        lit = "".join(alpha) or "ascii"
        pl = []
        if case["cookie"]:
            pl += case["cookie"].split("\n")
        pl += ["# " + lit, "alpha = '%s'" % lit, "def f(beta):", "    return beta + alpha  # alpha " + lit, "print(f('x'), alpha)"]
        pcase = dict(case)
        pbytes = build_bytes(pl, pcase)
        pp = os.path.join(root, "m.py")
        with open(pp, "wb") as f:
            f.write(pbytes)
        from rope.refactor.rename import Rename

        mres = project.get_file("m.py")
        mtext = mres.read()
        off = mtext.index("alpha = ")
        try:
            changes = Rename(project, mres, off).get_changes(case["new_name"], resources=[mres])
            project.do(changes)
            out.evals += 1
            new_pl = [re.sub(r"\balpha\b(?! " + re.escape(lit) + ")", case["new_name"], ln) if not ln.startswith("# ") else ln for ln in pl]
            expected = build_bytes(new_pl, pcase)
            got = _read(pp)
            if got != expected:
                out.violation("C16:rename_bytes:%s" % _why(case), _bd(expected, got))
        except Exception as e:
            from rope.base import exceptions as rex

            if isinstance(e, rex.RopeError):
                out.refused += 1
            else:
                out.violation("C16:rename_raised:" + type(e).__name__, repr(e))

        # (4) text written through rope reads back equal
        new = project.root.create_file("n.py")
        wtext = "\n".join(lines) + ("\n" if case["final_nl"] and lines else "")
        new.write(wtext)
        out.evals += 1
        back = project.get_file("n.py").read()
        if back != wtext:
            out.violation("C16:write_read_back", "wrote %r read %r" % (wtext[:80], back[:80]))
        # (5) the file's newline convention is converted OUTSIDE rope between two uses of the same File object: the next
        #     edit through that object must keep the convention the file has now, not the one it had at the first read
        if len(lines) >= 2 and not (case["declared"] == "bom"):
            first = res.read()
            for other_nl in [n for n in ("\n", "\r\n", "\r") if n != case["nl"]]:
                if other_nl == "\r" and ff_first and env.known("cr_only_file_cookie_on_line_two_after_non_comment_line"):
                    continue
                ocase = dict(case)
                ocase["nl"] = other_nl
                converted = build_bytes(lines, ocase)
                with open(fp, "wb") as fh:
                    fh.write(converted)
                now = res.read()
                k = next((i for i in range(len(lines)) if i not in cookie_idx), None)
                if now != first or k is None:
                    break
                new_lines = list(lines)
                new_lines[k] = case["repl"].replace("coding", "c_ding")
                new_tl = now.split("\n")
                new_tl[k] = new_lines[k]
                project.do(ch.ChangeContents(res, "\n".join(new_tl)))
                out.evals += 1
                got = _read(fp)
                expected = build_bytes(new_lines, ocase)
                if got != expected:
                    out.violation("C16:edit_after_outside_newline_conversion", "%r -> %r, line %d: %s" % (case["nl"], other_nl, k, _bd(expected, got)))
                    break
                project.history.undo()
                if _read(fp) != converted:
                    out.violation("C16:undo_after_outside_newline_conversion", _bd(converted, _read(fp)))
                    break
            with open(fp, "wb") as fh:
                fh.write(original)
        # (6) the edit is undone / redone in a LATER session (history saved and reloaded): same bytes as in the same session
        k6 = next((i for i in range(len(lines)) if i not in cookie_idx and not (i == 0 and case["declared"] == "bom")), None)
        if k6 is not None and len(lines) >= 2:
            project.close()
            project = Project(root, save_history=True)
            res6 = project.get_file("f.py")
            t6 = res6.read().split("\n")
            new_lines = list(lines)
            new_lines[k6] = case["repl"].replace("coding", "c_ding")
            t6[k6] = new_lines[k6]
            project.do(ch.ChangeContents(res6, "\n".join(t6)))
            edited = _read(fp)
            project.close()
            project = Project(root, save_history=True)
            out.evals += 1
            try:
                project.history.undo()
                got = _read(fp)
                if got != original:
                    out.violation("C16:undo_in_later_session", _bd(original, got))
                else:
                    project.history.redo()
                    got = _read(fp)
                    if got != edited:
                        out.violation("C16:redo_in_later_session", _bd(edited, got))
                    project.history.undo()
                    # ... and the redo alone in a third session (the change comes back from the saved redo list and its File
                    # object has never been read)
                    project.close()
                    project = Project(root, save_history=True)
                    out.evals += 1
                    project.history.redo()
                    got = _read(fp)
                    if got != edited:
                        out.violation("C16:redo_in_third_session", _bd(edited, got))
                    project.history.undo()
                    if _read(fp) != original:
                        out.violation("C16:undo_in_third_session", _bd(original, _read(fp)))
            except Exception as e:
                out.violation("C16:undo_in_later_session_raised:" + type(e).__name__, repr(e)[:200])
        # (8) new contents with a character the declared encoding cannot represent: either the write fails and the file keeps
        #     its bytes, or what lands on disk decodes, under the declared encoding, to the requested text
        bad = next((c_ for c_ in CANDIDATES if ord(c_) > 127 and c_ not in alphabet(case["codec"])), None)
        k8 = next((i for i in range(len(lines)) if i not in cookie_idx and not (i == 0 and case["declared"] == "bom")), None)
        if bad is not None and k8 is not None and case["declared"] == "cookie":
            if project is not None:
                project.close()
            project = Project(root, ropefolder=None)
            res8 = project.get_file("f.py")
            with open(fp, "wb") as fh:
                fh.write(original)
            t8 = res8.read().split("\n")
            t8[k8] = "x" + bad
            out.evals += 1
            out.labels["unencodable_character_requested"] += 1
            try:
                project.do(ch.ChangeContents(res8, "\n".join(t8)))
                wrote = True
            except Exception:
                wrote = False
            got = _read(fp)
            if not wrote and got != original:
                out.violation("C16:failed_write_changed_bytes", _bd(original, got))
            elif wrote:
                try:
                    ok8 = got.decode(case["codec"]).replace("\r\n", "\n").replace("\r", "\n") == "\n".join(t8)
                except UnicodeError:
                    ok8 = False
                if not ok8:
                    out.violation("C16:unencodable_text_written_under_declared_encoding", "%r requested for a %s file: %s" % (bad, case["codec"], _bd(original, got)))
            with open(fp, "wb") as fh:
                fh.write(original)
        # (7) a refactoring that inserts code into ANOTHER file of this codec / newline convention / cookie layout (MoveGlobal
        #     into a module without imports): the destination keeps every original non-blank line byte for byte and in order, is still
        #     read by the interpreter under its declared encoding, and the moved literal keeps its value
        _move_into_encoded_module(case, env, out, project, root)
        if nontrivial:
            out.nontrivial.add("c")
    finally:
        if project is not None:
            project.close()
        core.rmtree(root)
    return out


def _exec_bytes(data, name):
    ns = {"__name__": name}
    exec(compile(data, name + ".py", "exec", dont_inherit=True), ns)
    return ns


def _move_into_encoded_module(case, env, out, project, root):
    from rope.base import exceptions as rex
    from rope.refactor import move

    alpha = [c for c in alphabet(case["codec"]) if ord(c) > 127][:3]
    lit = "".join(alpha) or "ascii"
    head = case["cookie"].split("\n") if case["cookie"] else []
    src_lines = head + ["beta = '%s'" % lit, "def moved():", "    return '%s'" % lit, "gamma = moved()"]
    dst_lines = head + ["# " + lit, "def own():", "    return '%s'" % lit]
    sb, db = build_bytes(src_lines, case), build_bytes(dst_lines, case)
    try:
        if _exec_bytes(db, "dst")["own"]() != lit or _exec_bytes(sb, "src")["moved"]() != lit:
            raise ValueError("literal")
    except Exception:
        # the interpreter itself does not read this layout the way the harness built it (e.g. CR-only cookie lines)
        out.notes["move_clause_skipped: interpreter does not read the fixture as built"] += 1
        return
    from rope.base.project import Project

    # a project of its own: the files of the other clauses are arbitrary text, not Python
    root = core.fresh_dir("c16m")
    for name, data in (("src.py", sb), ("dst.py", db)):
        with open(os.path.join(root, name), "wb") as fh:
            fh.write(data)
    project = Project(root, ropefolder=None)
    try:
        sres, dres = project.get_file("src.py"), project.get_file("dst.py")
        out.evals += 1
        try:
            changes = move.create_move(project, sres, sres.read().index("moved")).get_changes(dres)
            project.do(changes)
        except rex.RopeError:
            out.refused += 1
            return
        got = _read(os.path.join(root, "dst.py"))
    finally:
        project.close()
        core.rmtree(root)
    out.labels["move_into_encoded_module"] += 1
    nlb = case["nl"].encode("ascii")
    bom = codecs.BOM_UTF8 if case["declared"] == "bom" else b""
    # (blank lines - whitespace or a lone form feed - are not compared: re-emitting the import block normalises them)
    want_lines = [ln.encode(case["codec"]) for ln in dst_lines if ln.strip()]
    got_lines = got[len(bom):].split(nlb) if got.startswith(bom) else None
    it = iter(got_lines or [])
    if got_lines is None or not all(any(w == g for g in it) for w in want_lines):
        out.violation("C16:move_destination_lines_changed:%s" % _why(case), _bd(db, got))
        return
    try:
        ns = _exec_bytes(got, "dst")
        val = (ns["own"](), ns["moved"]())
    except Exception as e:
        out.violation("C16:move_destination_not_readable_under_its_encoding:%s" % type(e).__name__, "%r\n%s" % (e, _bd(db, got)))
        return
    if val != (lit, lit):
        out.violation("C16:move_changed_literal_value", "%r, expected %r twice\n%s" % (val, lit, _bd(db, got)))


def _has_newline(lines, case):
    return len(lines) >= 2 or (case["final_nl"] and lines)


def _why(case):
    return "%s,%s" % ("utf8" if case["codec"] == "utf-8" else "other", {"\n": "lf", "\r\n": "crlf", "\r": "cr"}[case["nl"]])


def _read(p):
    with open(p, "rb") as f:
        return f.read()


def _bd(a, b):
    i = 0
    while i < min(len(a), len(b)) and a[i] == b[i]:
        i += 1
    return "first difference at byte %d: expected %r got %r (lengths %d/%d)" % (i, a[max(0, i - 8): i + 12], b[max(0, i - 8): i + 12], len(a), len(b))
