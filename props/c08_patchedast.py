"""C08 - the source-annotated syntax tree is lossless and its regions are exact.

Inputs: G-SRC grammar texts, statement soup, corpus files.  Per text every AST node is checked:
 (1) get_patched_ast(src, True) returns, without "please report" warnings;
 (2) write_ast(tree) == src;
 (3) every stmt/expr node outside f-strings has a region; child region inside parent region; direct children disjoint;
 (4) region == interpreter segment up to balanced outer parentheses / whitespace / comments on either side
     (decorated definitions start at the first decorator on rope's side);
 (5) the region's text re-parses to the same node (ast.dump, contexts normalised).
"""
import ast
import re
import warnings

from hypothesis import strategies as st

from vlib import core, srcgen

PID = "C08"
LEVEL = "exploration"
TECHNIQUE = "round-trip + differential testing against the interpreter's node positions and re-parse (Hypothesis grammar, statement soup, stdlib corpus); coverage-guided stage (atheris driving the same strategy) in the thorough tier"
RULE = (
    "texts from the G-SRC concrete-syntax grammar (every statement/expression form of the 3.12 grammar with hostile layout), "
    "stdlib statement soup and corpus files (every 4th file quick / all thorough); every AST node of every text is checked; "
    "non-trivial = text with >= 20 AST nodes and >= 1 layout hazard label (comment in bracket, redundant parens, continuation, "
    "multi-line bracket, prefixed string, semicolon, tabs); distinct by text hash"
)
ASSUMPTIONS = [
    "f-string internals (descendants of JoinedStr) are exempt from clauses 3-5: rope annotates them only partially by design",
    "interpreter positions (lineno/col_offset/end_*) of CPython 3.12 are the reference for clause 4",
]
BUDGET = {"quick": (4000, 240), "thorough": (100000, 2700)}
# thorough tier: rope modules instrumented for the coverage-guided (atheris) stage, see vlib/fuzzworker.py
FUZZ_SECONDS = 240  # per process, thorough tier only
FUZZ_MODULES = ["rope.refactor.patchedast", "rope.base.codeanalyze", "rope.base.ast"]

HAZARDS = {"comment_in_bracket", "backslash_cont", "multiline_bracket", "prefixed_string", "semicolon", "tabs", "implicit_concat", "multiline_string"}


def strategy(tier):
    return st.one_of(
        srcgen.grammar().map(lambda s: {"src": s, "from": "grammar"}),
        srcgen.grammar().map(lambda s: {"src": s, "from": "grammar"}),
        srcgen.soup().map(lambda s: {"src": s, "from": "soup"}),
    )


def enumerate_cases(tier, k, nworkers):
    files = srcgen.corpus_files()
    step = 4 if tier == "quick" else 1
    for i, path in enumerate(files[1::step]):
        if i % nworkers != k:
            continue
        src = srcgen.read_source(path)
        if src is None or len(src) > (50000 if tier == "quick" else 400000):
            continue
        yield {"src": src, "from": "corpus:" + path.split("/lib/python3.12/")[-1]}


def describe(case):
    return {"from": case["from"], "src": case["src"][:500]}


def _norm_dump(node):
    node = _copy_load(node)
    return ast.dump(node)


def _copy_load(node):
    """structural copy with every ctx = Load (and without rope's extra attributes)"""
    if isinstance(node, ast.AST):
        if isinstance(node, ast.expr_context):
            return ast.Load()
        new = type(node)()
        for f in node._fields:
            if hasattr(node, f):
                setattr(new, f, _copy_load(getattr(node, f)))
        return new
    if isinstance(node, list):
        return [_copy_load(x) for x in node]
    return node


# CPython counts a trailing ';' into the enclosing compound statement's extent; rope does not
_EXTRA_OK = re.compile(r"^[\s();\\]*$")


def _strip_comments(text):
    return re.sub(r"#[^\n]*", "", text)


# Known-finding predicates: feature label of the text (srcgen.features) -> finding predicate name
FEATURE_PREDICATES = {
    # file-level: the defect derails the cursor, so the whole text is skipped (and counted)
    "pep695": "pep695_type_params",
    "nfkc_ident": "nfkc_identifier",
    "tuple1": "one_tuple_region_omits_comma",
    "hash_string_then_paren": "hash_in_string_before_paren",
    "match_sequence_unbracketed": "match_sequence_parens",
    "empty_triple_fstring": "empty_triple_fstring",
    "fstring_then_plain_string": "fstring_then_plain_string",
    "plain_string_then_fstring": "plain_string_then_fstring",
    "multiline_fstring_then_fstring": "multiline_fstring_then_fstring",
    "bare_tuple_trailing_comma": "bare_tuple_trailing_comma_outside_region",
    "fstring_escaped_brace_and_hash": "fstring_escaped_brace_and_hash",
    "kwonly": "kwonly_posonly_params_unvisited",
    "posonly": "kwonly_posonly_params_unvisited",
}
# node-level: only the affected node / sub-tree is skipped, the rest of the text is still checked
NODE_PREDICATES = ["starred_region_omits_star", "slice_empty_step_colon", "annotations_unvisited", "class_keywords_unvisited"]


def _skipped_subtrees(node, env, out):
    """children of `node` that a node-level known finding says are never visited"""
    skip = []
    if isinstance(node, ast.arguments) and (node.kwonlyargs or node.posonlyargs):
        if env.known("kwonly_posonly_params_unvisited"):
            out.excluded["kwonly_posonly_params_unvisited"] += 1
            # with positional-only parameters present rope attaches nothing reliable to the whole list
            skip += list(node.kwonlyargs) + [d for d in node.kw_defaults if d is not None] + list(node.posonlyargs)
            if node.posonlyargs:
                skip += list(node.args) + list(node.defaults)
            if node.vararg:
                skip.append(node.vararg)
            if node.kwarg:
                skip.append(node.kwarg)
    if isinstance(node, ast.arg) and node.annotation is not None and env.known("annotations_unvisited"):
        out.excluded["annotations_unvisited"] += 1
        skip.append(node.annotation)
    if isinstance(node, ast.arguments) and env.known("annotations_unvisited"):
        for a in (node.vararg, node.kwarg):
            if a is not None and a.annotation is not None:
                skip.append(a)
    if isinstance(node, (ast.FunctionDef, ast.AsyncFunctionDef)) and node.returns is not None and env.known("annotations_unvisited"):
        out.excluded["annotations_unvisited"] += 1
        skip.append(node.returns)
    if isinstance(node, ast.ClassDef) and node.keywords and env.known("class_keywords_unvisited"):
        out.excluded["class_keywords_unvisited"] += 1
        skip += list(node.keywords)
    return skip


def _node_exempt(node, src, env, out):
    """the node's own exactness is a recorded finding"""
    if isinstance(node, ast.Starred) and env.known("starred_region_omits_star"):
        out.excluded["starred_region_omits_star"] += 1
        return True
    if isinstance(node, ast.Slice) and node.step is None and env.known("slice_empty_step_colon"):
        seg = ast.get_source_segment(src, node) or ""
        if seg.rstrip().endswith(":") and seg.count(":") >= 2:
            out.excluded["slice_empty_step_colon"] += 1
            return True
    return False


def evaluate(case, env):
    from rope.refactor import patchedast

    out = core.Outcome()
    src = case["src"]
    if not srcgen.compiles(src):
        out.notes["generator_invalid"] += 1
        return out
    origin = case["from"].split(":")[0]
    feats = srcgen.features(src)
    for f in feats:
        out.labels[f] += 1
    out.labels["from:" + origin] += 1
    for feat, pred in FEATURE_PREDICATES.items():
        if feat in feats and env.known(pred):
            out.excluded[pred] += 1
            return out

    def vio(clause, ntype, detail):
        out.violation("C08:%s:%s" % (clause, ntype), "[%s] %s" % (origin, detail))

    out.evals += 1
    with warnings.catch_warnings(record=True) as wlist:
        warnings.simplefilter("always")
        try:
            tree = patchedast.get_patched_ast(src, True)
        except RecursionError:
            out.notes["recursion"] += 1
            return out
        except Exception as e:
            vio("annotate_raised", type(e).__name__, "%r on %r" % (e, _ctx(src, e)))
            return out
    for w in wlist:
        if "please report" in str(w.message):
            vio("warning", str(w.message).split("<")[1].split(">")[0] if "<" in str(w.message) else "?", str(w.message))
            break
    # (2)
    try:
        back = patchedast.write_ast(tree)
    except Exception as e:
        vio("write_ast_raised", type(e).__name__, repr(e))
        back = src
    if back != src:
        i = 0
        while i < min(len(back), len(src)) and back[i] == src[i]:
            i += 1
        vio("roundtrip", "Module", "first difference at %d: source %r, written %r" % (i, src[i: i + 40], back[i: i + 40]))

    lines = src.split("\n")
    starts = [0]
    for ln in lines:
        starts.append(starts[-1] + len(ln) + 1)

    def off(lineno, col):
        line = lines[lineno - 1]
        return starts[lineno - 1] + len(line.encode("utf-8")[:col].decode("utf-8", "ignore"))

    nnodes = 0
    reported = set()
    star_ok = "starred" in feats and env.known("starred_region_omits_star")
    colon_ok = "slice_empty_step" in feats and env.known("slice_empty_step_colon")

    def report(clause, node, detail):
        key = (clause, type(node).__name__)
        if key in reported:
            return
        reported.add(key)
        vio(clause, type(node).__name__, detail)

    def walk(node, parent, in_fstring):
        nonlocal nnodes
        nnodes += 1
        is_se = isinstance(node, (ast.stmt, ast.expr))
        region = getattr(node, "region", None)
        if region is not None and (region[0] is None or region[1] is None):
            report("broken_region", node, "region %r" % (region,))
            region = None
        if is_se and not in_fstring:
            out.evals += 1
            if region is None:
                report("no_region", node, "node at line %d has no region: %r" % (getattr(node, "lineno", 0), _seg(src, node, off)[:60]))
            else:
                s, e = region
                preg = getattr(parent, "region", None) if parent is not None else None
                if preg is not None and None in preg:
                    preg = None
                if preg is not None and not (preg[0] <= s and e <= preg[1]):
                    report("not_inside_parent", node, "%s %r not inside %s %s" % (region, src[s:e][:40], type(parent).__name__, preg))
                if hasattr(node, "lineno") and not isinstance(node, (ast.JoinedStr, ast.FormattedValue)) and not _node_exempt(node, src, env, out):
                    cs, ce = off(node.lineno, node.col_offset), off(node.end_lineno, node.end_col_offset)
                    decos = getattr(node, "decorator_list", None)
                    if decos:
                        d0 = min(off(d.lineno, d.col_offset) for d in decos)
                        at = src.rfind("@", 0, d0)
                        if at >= 0:
                            cs = min(cs, at)
                    if e <= cs or ce <= s:
                        if not (s == e == cs == ce):
                            report("region_disjoint_from_interpreter", node, "rope %s %r, interpreter %s %r" % (region, src[s:e][:40], (cs, ce), src[cs:ce][:40]))
                    else:
                        lead = _strip_comments(src[min(s, cs): max(s, cs)])
                        trail = _strip_comments(src[min(e, ce): max(e, ce)])
                        cascade = False
                        if star_ok and "*" in lead and s > cs:
                            # a leading Starred child whose '*' rope leaves out (recorded finding) shortens its ancestors too
                            lead = lead.replace("*", "")
                            cascade = True
                        if colon_ok and ":" in trail and e < ce:
                            trail = trail.replace(":", "")
                            cascade = True
                        if not _EXTRA_OK.match(lead + " " + trail):
                            report("region_inexact", node, "rope %r vs interpreter %r" % (src[s:e][:60], src[cs:ce][:60]))
                        elif not cascade:
                            # (5) re-parse
                            _reparse(node, src, s, e, starts, report)
        child_regions = []
        inf = in_fstring or isinstance(node, ast.JoinedStr)
        skipped = _skipped_subtrees(node, env, out)
        for c in ast.iter_child_nodes(node):
            if isinstance(c, (ast.expr_context, ast.operator, ast.boolop, ast.unaryop, ast.cmpop)):
                continue
            if any(c is x for x in skipped):
                continue
            walk(c, node if region is not None else parent, inf)
            cr = getattr(c, "region", None)
            if cr is not None and None not in cr and isinstance(c, (ast.stmt, ast.expr)) and not inf:
                child_regions.append((cr, c))
        child_regions.sort(key=lambda x: x[0])
        for (r1, c1), (r2, c2) in zip(child_regions, child_regions[1:]):
            if r1[1] > r2[0] and not (r1 == r2):
                report("children_overlap", node, "%s %s %r overlaps %s %s %r" % (type(c1).__name__, r1, src[r1[0]: r1[1]][:30], type(c2).__name__, r2, src[r2[0]: r2[1]][:30]))
                break

    try:
        walk(tree, None, False)
    except RecursionError:
        out.notes["recursion"] += 1
    if nnodes >= 20 and feats & HAZARDS:
        out.nontrivial.add("t")
    return out


def _reparse(node, src, s, e, starts, report):
    txt = src[s:e]
    try:
        if isinstance(node, ast.expr):
            if isinstance(node, ast.Slice):
                got = ast.parse("_[\n" + txt + "\n]", mode="eval").body.slice
            elif isinstance(node, ast.Tuple) and any(isinstance(x, (ast.Slice, ast.Starred)) for x in node.elts):
                got = ast.parse("_[\n" + txt + "\n]", mode="eval").body.slice
            elif isinstance(node, ast.Starred):
                got = ast.parse("[\n" + txt + "\n]", mode="eval").body.elts[0]
            else:
                got = ast.parse("(\n" + txt + "\n)", mode="eval").body
        else:
            ls = src.rfind("\n", 0, s) + 1
            lead = src[ls:s]
            body = txt
            if body.startswith("elif") and isinstance(node, ast.If):
                body = "if  " + body[4:]
            if lead.strip() == "" and lead:
                code = "if 1:\n" + lead + body + "\n"
                got = ast.parse(code).body[0].body
            else:
                got = ast.parse(body + "\n").body
            if len(got) != 1:
                report("reparse_count", node, "%d statements in %r" % (len(got), txt[:60]))
                return
            got = got[0]
    except SyntaxError as ex:
        got = None
        if isinstance(node, ast.Expr):
            # an expression statement spelled with outer parentheses that rope attributes to the statement's
            # surroundings (a parenthesised walrus or yield is only valid with them)
            try:
                got = ast.Expr(ast.parse("(\n" + txt + "\n)", mode="eval").body)
            except SyntaxError:
                got = None
        if got is None:
            report("reparse_syntax", node, "%r: %s" % (txt[:80], ex.msg))
            return
    except (ValueError, RecursionError, MemoryError):
        return
    if _norm_dump(got) != _norm_dump(node):
        report("reparse_differs", node, "%r re-parses to a different node" % (txt[:80],))


def _seg(src, node, off):
    try:
        return src[off(node.lineno, node.col_offset): off(node.end_lineno, node.end_col_offset)]
    except Exception:
        return ""


def _ctx(src, e):
    return src[:80]
