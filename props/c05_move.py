"""C05 - moving / renaming definitions and modules keeps every importer working.

Dedicated layout generator (the legal destinations are known by construction, the import graph stays acyclic):
  base.py   constants + helper the moved code uses          (imported by src in a drawn style)
  src.py    the element to move (function | class | variable) + other globals, may use the element itself
  dst.py    destination module (imports only base)
  c1.py, c2.py, pkg/sub.py   clients reaching the element / the module in drawn import styles
  main.py   imports everything and prints
Actions: MoveGlobal(element -> dst | pkg/sub), MoveModule(src -> pkg | pkg/leaf -> root), ModuleToPackage(src),
Rename(module), MoveMethod(method -> class of self.attr).
Oracle: every module compiles and imports ON ITS OWN, main prints the same output.
"""
from hypothesis import strategies as st

from vlib import core, fsmodel, runner

PID = "C05"
LEVEL = "exploration"
TECHNIQUE = "metamorphic testing: move then import-every-module and run (Hypothesis: layouts x import styles x movable elements x legal destinations)"
RULE = (
    "layout with 3 client modules (flat and in a package) each drawing one of 5 import styles for the element and for the module, the "
    "moved code using names imported in 4 styles and optionally a global of its source; actions MoveGlobal / MoveModule / "
    "ModuleToPackage / Rename(module) / MoveMethod; destinations legal by construction (acyclic import graph, no name clash); "
    "non-trivial = accepted move with >= 2 clients in different import styles or a relative importer; distinct by case hash"
    "; further shapes: package sibling named like the destination, two import statements for the moved module, a three-level destination, a namesake module imported next to the moved one"
)
ASSUMPTIONS = [
    "a destination that would close an import cycle is an illegal request and is never asked",
    "module-level code of every module only defines and prints; importing a module twice is harmless",
]
BUDGET = {"quick": (16000, 240), "thorough": (200000, 2700)}

ELEMENT_STYLES = ["import_mod", "from_name", "from_name_as", "import_mod_as", "from_name"]
BASE_STYLES = ["import_mod", "from_name", "import_mod_as", "from_name_as"]


@st.composite
def cases(draw):
    action = draw(st.sampled_from(["move_global", "move_global", "move_module", "to_package", "rename_module", "move_method", "move_leaf_to_root", "move_leaf_to_pkg2", "rename_deep_module", "leaf_to_package"]))
    return {
        "action": action,
        "element": draw(st.sampled_from(["function", "class", "variable"])),
        "base_style": draw(st.sampled_from(BASE_STYLES)),
        "uses_src_global": draw(st.booleans()),
        "src_uses_element": draw(st.booleans()),
        "dest": draw(st.sampled_from(["dst", "dst", "pkg.sub", "pkg.inner.deep"])),
        "dst_has_imports": draw(st.booleans()),
        "clients": [draw(st.sampled_from(ELEMENT_STYLES)) for _ in range(3)],
        "leaf_clients": [draw(st.sampled_from(["import_dotted", "from_pkg_import", "from_pkg_import_as", "from_leaf_import", "import_dotted_as", "from_pkg_import_twice", "dotted_plus_namesake"])) for _ in range(2)],
        "sibling_named_like_dest": draw(st.booleans()),
        # one client already imports a module whose dotted name merely starts with the destination's (dstx / pkg.subx)
        "lookalike_import": draw(st.booleans()),
        # the module that moves / becomes a package itself imports a sibling relatively, naming the package ("from . import sub")
        "leaf_rel": draw(st.sampled_from(["none", "from_dot_import_module", "from_dot_import_module"])),
        "relative_in_pkg": draw(st.booleans()),
        "method_other_module": draw(st.integers(0, 3)) == 0,
        "method_uses_global": draw(st.booleans()),
        # the moved method needs an imported module: in its header (a default value), its body, both or not at all
        "method_import": draw(st.sampled_from(["none", "header", "body", "both"])),
    }


def strategy(tier):
    return cases()


def _elem_ref(style, mod="src", name="elem"):
    """(import line, expression to reach the element)"""
    if style == "import_mod":
        return "import %s\n" % mod, "%s.%s" % (mod, name)
    if style == "import_mod_as":
        return "import %s as m_alias\n" % mod, "m_alias.%s" % name
    if style == "from_name_as":
        return "from %s import %s as e_alias\n" % (mod, name), "e_alias"
    return "from %s import %s\n" % (mod, name), name


def render(case):
    files = {}
    files["base.py"] = "BASE = 10\ndef bhelper(v):\n    return v + BASE\n"
    bimp, bref = _elem_ref(case["base_style"], "base", "bhelper")
    bconst = {"import_mod": "base.BASE", "import_mod_as": "m_alias.BASE"}.get(case["base_style"])
    if bconst is None:
        bimp += "from base import BASE\n"
        bconst = "BASE"
    gl = " + SRCG" if case["uses_src_global"] else ""
    el = case["element"]
    if el == "function":
        elem = "def elem(x):\n    return %s(x) + %s%s\n" % (bref, bconst, gl)
        use = "elem(1)"
    elif el == "class":
        elem = "class elem:\n    def __init__(self, x):\n        self.v = %s(x) + %s%s\n" % (bref, bconst, gl)
        use = "elem(1).v"
    else:
        elem = "elem = %s(1) + %s%s\n" % (bref, bconst, gl)
        use = "elem"
    src = bimp + "SRCG = 5\n" + ("def other():\n    return SRCG + 1\n") + elem
    if case["src_uses_element"] and not (case["uses_src_global"]):
        src += "def src_user():\n    return %s\n" % use
    files["src.py"] = src
    files["dst.py"] = ("import base\ndef dst_own():\n    return base.BASE\n" if case["dst_has_imports"] else "def dst_own():\n    return 1\n")
    files["pkg/__init__.py"] = ""
    files["pkg2/__init__.py"] = ""
    files["pkg/leaf.py"] = "def leaf_fn():\n    return 7\nLEAF = 3\n"
    if case.get("leaf_rel", "none") != "none":
        files["pkg/leaf.py"] = "from . import sub\nfrom .inner import deep\ndef leaf_fn():\n    return 7 + sub.sub_own() * 0 + deep.deep_own() * 0\nLEAF = 3\n"
    files["pkg/sub.py"] = "def sub_own():\n    return 2\n"
    files["pkg/inner/__init__.py"] = ""
    files["pkg/inner/deep.py"] = "def deep_own():\n    return 3\n"
    files["pkg3/__init__.py"] = ""
    files["pkg3/leaf.py"] = "OTHER = 44\n"  # a different module with the moving module's base name
    mains = ["import src\nimport dst\nimport pkg.sub\nimport pkg.leaf\nprint(src.other(), dst.dst_own(), pkg.sub.sub_own())\nimport pkg.inner.deep\nfrom pkg.inner import deep as dp\nprint(pkg.inner.deep.deep_own(), dp.deep_own())\n"]
    if case["src_uses_element"] and not case["uses_src_global"]:
        mains.append("print(src.src_user())\n")
    # clients of the element
    names = ["c1.py", "c2.py", "pkg/cli.py"]
    for path, style in zip(names, case["clients"]):
        imp, ref = _elem_ref(style)
        u = {"function": "%s(2)" % ref, "class": "%s(2).v" % ref, "variable": ref}[el]
        modname = path[:-3].replace("/", ".")
        files[path] = imp + "def use():\n    return %s\n" % u
        if path == "c1.py" and case["dest"] == "pkg.inner.deep":
            # this client already takes something from the destination's top-level package
            files[path] = "from pkg import sub\n" + imp + "def use():\n    return %s + sub.sub_own() * 0\n" % u
        if path == "pkg/cli.py" and case.get("sibling_named_like_dest") and el != "class":
            # the client in the package also takes a name from its SIBLING pkg/dst.py, relatively: a different module than the
            # top-level dst.py the element may move to
            files["pkg/dst.py"] = "local_thing = 5\n"
            files[path] = "from .dst import local_thing\n" + imp + "def use():\n    return %s + local_thing\n" % u
        if path == "c2.py" and case.get("lookalike_import"):
            look = case["dest"] + "x"
            files[look.replace(".", "/") + ".py"] = "LOOK = 0\n"
            files[path] = "import %s\n" % look + files[path].replace("    return ", "    return %s.LOOK + " % look, 1)
        mains.append("import %s\nprint(%s.use())\n" % (modname, modname))
    # clients of the leaf module (for module moves out of a package)
    for k, style in enumerate(case["leaf_clients"]):
        path = "l%d.py" % k
        if style == "import_dotted":
            body = "import pkg.leaf\ndef use():\n    return pkg.leaf.leaf_fn() + pkg.leaf.LEAF\n"
        elif style == "import_dotted_as":
            body = "import pkg.leaf as lf\ndef use():\n    return lf.leaf_fn() + lf.LEAF\n"
        elif style == "from_pkg_import":
            body = "from pkg import leaf\ndef use():\n    return leaf.leaf_fn() + leaf.LEAF\n"
        elif style == "from_pkg_import_as":
            body = "from pkg import leaf as lf\ndef use():\n    return lf.leaf_fn() + lf.LEAF\n"
        elif style == "dotted_plus_namesake":
            body = "import pkg.leaf\nfrom pkg3 import leaf\ndef use():\n    return pkg.leaf.leaf_fn() + pkg.leaf.LEAF + leaf.OTHER * 0\n"
        elif style == "from_pkg_import_twice":
            # two separate statements bring the module in
            body = "from pkg import sub, leaf\nfrom pkg import leaf as lf2\ndef use():\n    return leaf.leaf_fn() + lf2.LEAF + sub.sub_own()\n"
        else:
            body = "from pkg.leaf import leaf_fn, LEAF\ndef use():\n    return leaf_fn() + LEAF\n"
        files[path] = body
        mains.append("import l%d\nprint(l%d.use())\n" % (k, k))
    if case["relative_in_pkg"]:
        files["pkg/rel.py"] = "from . import leaf\nfrom .leaf import LEAF\ndef use():\n    return leaf.leaf_fn() + LEAF\n"
        mains.append("import pkg.rel\nprint(pkg.rel.use())\n")
    # move-method scenario
    g = " + helper_g()" if case["method_uses_global"] else ""
    other_cls = "class Other:\n    def __init__(self):\n        self.k = 4\n"
    if case["method_other_module"]:
        files["om.py"] = other_cls
        mm = "import om\ndef helper_g():\n    return 9\nclass Owner:\n    def __init__(self):\n        self.other = om.Other()\n        self.z = 2\n    def meth(self, p):\n        return p + self.z%s\n" % g
    else:
        mm = "def helper_g():\n    return 9\n" + other_cls + "class Owner:\n    def __init__(self):\n        self.other = Other()\n        self.z = 2\n    def meth(self, p):\n        return p + self.z%s\n" % g
    mi = case.get("method_import", "none")
    if mi != "none":
        files["hx.py"] = "SEP = 5\nTAB = 7\n"
        mm = "import hx\n" + mm
        if mi in ("header", "both"):
            mm = mm.replace("def meth(self, p):", "def meth(self, p,\n             q=hx.SEP):").replace("return p + self.z", "return p + q + self.z")
        if mi in ("body", "both"):
            mm = mm.replace(" + self.z", " + hx.TAB + self.z")
    files["mm.py"] = mm + "def run():\n    return Owner().meth(3)\n"
    mains.append("import mm\nprint(mm.run())\n")
    files["main.py"] = "".join(mains)
    return files


def describe(case):
    f = render(case)
    return {"case": case, "src.py": f["src.py"], "c1.py": f["c1.py"]}


def hazards(case):
    hz = set()
    a = case["action"]
    if a in ("move_leaf_to_root",) and {"from_pkg_import_as", "from_pkg_import_twice"} & set(case["leaf_clients"]):
        hz.add("from_pkg_import_module_as_alias_left_behind")
    if a == "move_leaf_to_root" and "dotted_plus_namesake" in case["leaf_clients"]:
        hz.add("moved_module_name_collides_with_a_name_the_client_binds")
    if a == "move_global" and "from_name_as" in case["clients"]:
        hz.add("aliased_from_import_of_moved_global_left_behind")
    if a == "move_method" and case["method_uses_global"] and case["method_other_module"]:
        hz.add("moved_method_loses_source_module_globals")
    return hz


def evaluate(case, env):
    from rope.base import exceptions as rex
    from rope.base.project import Project
    from rope.refactor import move
    from rope.refactor.rename import Rename
    from rope.refactor.topackage import ModuleToPackage

    out = core.Outcome()
    files = render(case)
    base = runner.run(files, "main.py")
    if base[1]:
        raise core.HarnessError("generated project raises %s\n%s" % (base[1], runner.LAST_TB))
    for hz in sorted(hazards(case)):
        out.labels["hazard:" + hz] += 1
        if env.known(hz):
            out.excluded[hz] += 1
            return out
    a = case["action"]
    out.labels["action:" + a] += 1
    if a == "move_global" and case["uses_src_global"] and case["src_uses_element"]:
        out.notes["illegal_cycle_not_asked"] += 1
    root = core.fresh_dir("c05")
    fsmodel.write_tree(root, files)
    project = Project(root, ropefolder=None)
    try:
        out.evals += 1
        try:
            if a == "move_global":
                src = files["src.py"]
                off = src.index("elem")
                dest = project.get_file({"dst": "dst.py", "pkg.sub": "pkg/sub.py", "pkg.inner.deep": "pkg/inner/deep.py"}[case["dest"]])
                changes = move.create_move(project, project.get_file("src.py"), off).get_changes(dest)
            elif a == "move_module":
                changes = move.create_move(project, project.get_file("src.py")).get_changes(project.get_folder("pkg"))
            elif a == "move_leaf_to_root":
                changes = move.create_move(project, project.get_file("pkg/leaf.py")).get_changes(project.root)
            elif a == "move_leaf_to_pkg2":
                changes = move.create_move(project, project.get_file("pkg/leaf.py")).get_changes(project.get_folder("pkg2"))
            elif a == "to_package":
                changes = ModuleToPackage(project, project.get_file("src.py")).get_changes()
            elif a == "rename_module":
                changes = Rename(project, project.get_file("src.py")).get_changes("renamed_src")
            elif a == "rename_deep_module":
                changes = Rename(project, project.get_file("pkg/inner/deep.py")).get_changes("deeper")
            elif a == "leaf_to_package":
                changes = ModuleToPackage(project, project.get_file("pkg/leaf.py")).get_changes()
            else:
                mm = files["mm.py"]
                off = mm.index("meth")
                changes = move.create_move(project, project.get_file("mm.py"), off).get_changes("other", new_name="moved_meth")
        except rex.RopeError as e:
            out.refused += 1
            out.labels["refused:" + a] += 1
            return out
        except Exception as e:
            out.violation("C05:internal_error:%s:%s" % (type(e).__name__, a), repr(e)[:300])
            return out
        from props.c01_rename import apply_changes

        new_files, moves = _apply(files, changes)
        bad = runner.compiles(new_files)
        where = "%s %s\n%s" % (a, {k: v for k, v in case.items() if k != "action"}, _show(files, new_files, moves))
        if bad:
            out.violation("C05:does_not_compile:%s" % a, "%s\n%s" % (bad[0], where))
            return out
        each = runner.import_each({p: s for p, s in new_files.items() if p != "main.py"})
        broken = {p: e for p, e in each.items() if e}
        if broken:
            p0 = sorted(broken)[0]
            out.violation("C05:module_does_not_import:%s:%s" % (a, broken[p0]), "%s\n%s" % (broken, where))
            return out
        got = runner.run(new_files, "main.py")
        if got != base:
            out.violation("C05:behaviour:%s%s" % (a, ":" + got[1] if got[1] else ""), "output %r/%s -> %r/%s\n%s" % (base[0][-60:], base[1], got[0][-60:], got[1], where))
            return out
        styles = set(case["clients"])
        if len(styles) >= 2 or case["relative_in_pkg"]:
            out.nontrivial.add("c")
        out.labels["accepted:" + a] += 1
    finally:
        project.close()
        core.rmtree(root)
    return out


def _apply(files, changes):
    """like c01.apply_changes, plus folder/file creation (ModuleToPackage)"""
    from rope.base import change as ch

    files = dict(files)
    moves = []

    def rec(c):
        if isinstance(c, ch.ChangeSet):
            for x in c.changes:
                rec(x)
        elif isinstance(c, ch.ChangeContents):
            files[c.resource.path] = c.new_contents
        elif isinstance(c, ch.MoveResource):
            s, d = c.resource.path, c.new_resource.path
            moves.append((s, d))
            if s in files:
                files[d] = files.pop(s)
            else:
                for p in list(files):
                    if p.startswith(s + "/"):
                        files[d + p[len(s):]] = files.pop(p)
        elif isinstance(c, ch.CreateResource):
            if not c.resource.is_folder():
                files.setdefault(c.resource.path, "")
        elif isinstance(c, ch.RemoveResource):
            files.pop(c.resource.path, None)
        else:
            raise core.HarnessError("unexpected change kind %r" % type(c).__name__)

    rec(changes)
    return files, moves


def _show(a, b, moves):
    import difflib

    res = ["moves: %s\n" % moves] if moves else []
    mapped = {}
    for p in a:
        q = p
        for s, d in moves:
            if q == s:
                q = d
            elif q.startswith(s + "/"):
                q = d + q[len(s):]
        mapped[p] = q
    for p in sorted(a):
        q = mapped[p]
        if a[p] != b.get(q):
            res.append("".join(difflib.unified_diff(a[p].splitlines(True), (b.get(q) or "").splitlines(True), p, q, n=0)))
    for q in sorted(set(b) - set(mapped.values())):
        res.append("+++ new file %s\n%s" % (q, b[q][:300]))
    return "".join(res)[:2200]
