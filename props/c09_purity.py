"""C09 - computing changes is pure; performing them touches only what was announced; refusals are typed.

Projects from G-PROJ, extended with (a) a sibling directory OUTSIDE the project root holding a module the project
imports through the python_path preference and whose names are among those refactored, (b) an ignored folder
(ignored_resources) holding a module that mentions the same names, (c) a random resources= restriction.
Requests: 16 refactoring kinds x (identifier starts from the ground truth | arbitrary character positions incl. whitespace,
keywords, string interiors, EOF), i.e. valid and invalid requests alike.
Oracle: snapshot (path, type, bytes, mtime_ns) of root and sibling is unchanged by constructing the refactoring and by
get_changes(); any exception is a RopeError and leaves the snapshot unchanged; after project.do(changes) the changed paths
are a subset of get_changed_resources(), inside the root, not ignored, not in the sibling, inside the restriction; the new
tree equals the reference application of the change objects; every ChangeContents' get_description() equals the unified
diff of what was on disk before and after; undo restores the bytes.
"""
import difflib
import os
import traceback

from hypothesis import strategies as st

from vlib import core, fsmodel, projgen

PID = "C09"
LEVEL = "exploration"
TECHNIQUE = "request fuzzing with a snapshot oracle (purity, locality, preview == effect) and exception-type oracle; Hypothesis projects x refactoring kinds x offsets"
RULE = (
    "G-PROJ project + out-of-root module reachable through python_path + ignored folder mentioning the same names + optional "
    "resources= restriction; 12 requests per project: kind drawn from 16 refactorings, offset an identifier start (2/3) or an "
    "arbitrary position (1/3); non-trivial = accepted request that changed >= 1 file, or a refusal; internal exceptions are "
    "bucketed by (kind, exception type, innermost rope frame); distinct by (project hash, request)"
    "; 20 request kinds; an out-of-project package besides the module, a write to the ignored file through rope in mid-history, MoveMethod towards an out-of-project class, and one cross-project (multiproject) scenario per case with ownership / purity / locality clauses of its own"
)
ASSUMPTIONS = [
    "mtime_ns is part of the purity snapshot (a rewrite with identical bytes still counts as a write)",
    "the description of a ChangeContents is compared as a string with difflib.unified_diff of the real before/after text (a human preview, not applied)",
]
BUDGET = {"quick": (960, 240), "thorough": (24000, 2700)}

KINDS = [
    "rename", "rename_restricted", "extract_method", "extract_variable", "inline", "move_global", "change_signature", "introduce_factory",
    "encapsulate_field", "method_object", "local_to_field", "use_function", "introduce_parameter", "restructure", "organize_imports",
    "module_to_package", "rename_module", "move_module", "find_occurrences", "fix_module_names",
]


@st.composite
def cases(draw):
    proj = draw(projgen.projects())
    reqs = []
    for _ in range(12):
        reqs.append([draw(st.sampled_from(KINDS + ["write_ignored_file"])), draw(st.integers(0, 10 ** 6)), draw(st.integers(0, 10 ** 6)), draw(st.integers(0, 2)), draw(st.integers(0, 10 ** 6))])
    proj["requests"] = reqs
    proj["restrict"] = draw(st.integers(0, 10 ** 6))
    return proj


def strategy(tier):
    return cases()


def describe(case):
    return {"files": sorted(case["files"]), "requests": case["requests"][:4]}


def _site(e):
    """(exception type, innermost frame inside rope)"""
    tb = traceback.extract_tb(e.__traceback__)
    inner = None
    for fr in tb:
        if "/rope/" in fr.filename:
            inner = fr
    if inner is None:
        return type(e).__name__, "outside-rope"
    return type(e).__name__, "%s:%s" % (inner.filename.split("/rope/")[-1], inner.name)


def _build(kind, project, res, off, extra, case):
    """returns a zero-argument callable producing a Change (or None)"""
    from rope.refactor import change_signature, encapsulate_field, extract, inline, introduce_factory, introduce_parameter, localtofield, method_object, move, restructure, usefunction
    from rope.refactor.importutils import ImportOrganizer
    from rope.refactor.rename import Rename
    from rope.refactor.topackage import ModuleToPackage

    src = res.read() if not res.is_folder() else ""
    end = min(len(src), off + 1 + extra % 40)
    pyfiles = [r for r in project.get_python_files()]
    other = pyfiles[extra % len(pyfiles)] if pyfiles else res
    if kind == "move_method":
        return lambda: move.create_move(project, res, off).get_changes("helper", "moved_meth")
    if kind == "module_to_package_outside":
        # the resource of a module that lives OUTSIDE the project, as rope itself hands it out
        outside_res = project.find_module("outside_mod")
        return lambda: ModuleToPackage(project, outside_res).get_changes()
    if kind == "inline_outside_only_current":
        return lambda: inline.create_inline(project, res, off).get_changes(only_current=True)
    if kind == "rename":
        return lambda: Rename(project, res, off).get_changes("zz_fresh")
    if kind == "rename_restricted":
        subset = [r for i, r in enumerate(pyfiles) if (case["restrict"] >> i) & 1] or [res]
        if res not in subset:
            subset.append(res)  # a restriction that leaves out the queried module itself is a recorded finding, see below
        return lambda: (Rename(project, res, off).get_changes("zz_fresh", resources=subset), subset)
    if kind == "extract_method":
        return lambda: extract.ExtractMethod(project, res, off, end).get_changes("extracted")
    if kind == "extract_variable":
        return lambda: extract.ExtractVariable(project, res, off, end).get_changes("extracted")
    if kind == "inline":
        return lambda: inline.create_inline(project, res, off).get_changes()
    if kind == "move_global":
        dest = other if extra % 5 else project.root
        return lambda: move.create_move(project, res, off).get_changes(dest)
    if kind == "change_signature":
        return lambda: change_signature.ChangeSignature(project, res, off).get_changes([change_signature.ArgumentNormalizer()])
    if kind == "introduce_factory":
        return lambda: introduce_factory.IntroduceFactory(project, res, off).get_changes("create", global_factory=bool(extra % 2))
    if kind == "encapsulate_field":
        return lambda: encapsulate_field.EncapsulateField(project, res, off).get_changes()
    if kind == "method_object":
        return lambda: method_object.MethodObject(project, res, off).get_changes("_New")
    if kind == "local_to_field":
        return lambda: localtofield.LocalToField(project, res, off).get_changes()
    if kind == "use_function":
        return lambda: usefunction.UseFunction(project, res, off).get_changes()
    if kind == "introduce_parameter":
        return lambda: introduce_parameter.IntroduceParameter(project, res, off).get_changes("new_param")
    if kind == "restructure":
        names = sorted({t[3].split("#")[0].split(".")[-1] for t in case["tokens"]})
        name = case["classes"][sorted(case["classes"])[extra % len(case["classes"])]]["name"]
        return lambda: restructure.Restructure(project, "%s(${a})" % name, "%s(${a})" % name).get_changes()
    if kind == "organize_imports":
        return lambda: ImportOrganizer(project).organize_imports(res)
    if kind == "module_to_package":
        return lambda: ModuleToPackage(project, res).get_changes()
    if kind == "rename_module":
        return lambda: Rename(project, res).get_changes("zz_module")
    if kind == "move_module":
        folders = [f for f in [project.root] + [r for r in project.root.get_children() if r.is_folder()]]
        return lambda: move.create_move(project, res).get_changes(folders[extra % len(folders)])
    if kind == "find_occurrences":
        from rope.contrib import findit

        return lambda: (findit.find_occurrences(project, res, off), None)[1]
    if kind == "fix_module_names":
        from rope.contrib.fixmodnames import FixModuleNames

        return lambda: FixModuleNames(project).get_changes()
    raise core.HarnessError(kind)


def evaluate(case, env):
    from rope.base import change as rch
    from rope.base import exceptions as rex
    from rope.base.project import Project

    out = core.Outcome()
    top = core.fresh_dir("c09")
    root = os.path.join(top, "proj")
    sibling = os.path.join(top, "outside")
    os.makedirs(root)
    os.makedirs(sibling)
    files = dict(case["files"])
    # out-of-project module that defines names of the identifier pool and is imported by main through python_path
    names = projgen.POOL
    outside_src = "".join("%s = %d\n" % (n, i) for i, n in enumerate(names[:5])) + "def outside_fn(alpha, beta=2):\n    return alpha + beta\nclass OutsideCls:\n    gamma = 1\n"
    files["main.py"] = files["main.py"] + "import outside_mod\nprint(outside_mod.alpha, outside_mod.outside_fn(1))\nimport outside_pkg\nprint(outside_pkg.alpha)\nimport sys\nprint(sys.maxsize > 0)\n"
    # a class whose attribute holds an instance of an OUT-OF-PROJECT class: MoveMethod towards it must stay inside the project
    if not case.get("without_mover"):  # (replays recorded before this fixture existed carry without_mover)
        files["mover.py"] = "import outside_mod\nclass Owner:\n    def __init__(self):\n        self.helper = outside_mod.OutsideCls()\n        self.k = 2\n    def meth(self, x):\n        return x + self.k\n"
    files["ignored/ign.py"] = "".join("%s = %d\n" % (n, i) for i, n in enumerate(names)) + "import m0\n"
    # generated code ignored through the documented any-depth pattern form 'gen//*.py': directly in gen/, one and two levels below
    gen_src = "".join("%s = %d\n" % (n, i) for i, n in enumerate(names)) + "import m0\nfrom m0 import *\n"
    for gp in ("gen/stubs.py", "gen/v1/api.py", "gen/v1/models/shapes.py"):
        files[gp] = gen_src
    fsmodel.write_tree(root, files)
    fsmodel.write_tree(sibling, {"outside_mod.py": outside_src, "outside_pkg/": None, "outside_pkg/__init__.py": "alpha = 5\n"})
    project = Project(root, ropefolder=None, python_path=[sibling], ignored_resources=["ignored", "*.pyc", "gen//*.py"])
    try:
        def snap():
            a = fsmodel.snapshot(root, with_mtime=True)
            b = fsmodel.snapshot(sibling, with_mtime=True)
            return a, b

        def plain(s):
            return {p: (v[0] if isinstance(v, tuple) and len(v) == 2 else None) for p, v in s.items()}

        S0 = snap()
        by_file = {}
        for t in case["tokens"]:
            by_file.setdefault(t[0], []).append(t[1])
        paths = sorted(case["files"])
        # two fixed requests at the end: rename the out-of-project module / package from its import in main.py
        fixed = ([] if case.get("without_mover") else [("move_method", "mover.py", files["mover.py"].index("meth"), 0, 0)]) + [
            ("inline_outside_only_current", "main.py", files["main.py"].rindex("outside_fn"), 0, 0),
            ("module_to_package_outside", "main.py", 0, 0, 0),
            ("rename", "main.py", files["main.py"].rindex("sys"), 0, 0),
            ("rename", "main.py", files["main.py"].rindex("outside_mod"), 0, 0),
            ("rename", "main.py", files["main.py"].rindex("outside_pkg"), 0, 0),
        ]
        for kind, a, b, mode, extra in list(case["requests"]) + fixed:
            if isinstance(a, str):
                path, src, off, where = a, files[a], b, "outside_import"
                if project.get_file(path).read() != src:
                    continue  # an earlier request rewrote main.py: the offset is stale
            else:
                path = paths[a % len(paths)]
                src = files[path]
                if mode < 2 and by_file.get(path):
                    off = by_file[path][b % len(by_file[path])]
                    where = "ident"
                else:
                    off = b % (len(src) + 1)
                    where = "arbitrary"
            res = project.get_file(path)
            sub = {"kind": kind, "path": path, "offset": off, "where": where}
            if kind == "write_ignored_file":
                # not a refactoring request: the user (or a generator script) writes an ignored file THROUGH rope while the
                # project's caches are warm; later refactorings must still leave the ignored folder alone
                project.get_python_files()
                ign = project.get_file("ignored/ign.py")
                ign.write(ign.read() + "# touched\n")
                S0 = snap()
                out.labels["write_ignored_file"] += 1
                continue
            out.evals += 1
            restricted = None
            try:
                fn = _build(kind, project, res, off, extra, case)
                changes = fn()
                if isinstance(changes, tuple):
                    changes, restricted = changes
            except rex.RopeError:
                out.refused += 1
                out.labels["refused:" + kind] += 1
                if snap() != S0:
                    out.violation("C09:refusal_touched_disk:" + kind, str(sub), sub)
                    break
                out.nontrivial.add(("r", kind, path, off))
                continue
            except RecursionError:
                out.notes["recursion"] += 1
                continue
            except Exception as e:
                etype, site = _site(e)
                key = "site:%s:%s:%s" % (kind, etype, site)
                out.labels["internal:" + kind] += 1
                if env.known(key):
                    out.excluded[key] += 1
                else:
                    ctx = src[max(0, off - 25): off] + "<|>" + src[off: off + 25]
                    out.violation("C09:internal_error:%s:%s:%s" % (kind, etype, site), "%r at %s:%d (%s) near %r" % (e, path, off, where, ctx), sub)
                if snap() != S0:
                    out.violation("C09:failed_request_touched_disk:" + kind, str(sub), sub)
                    break
                continue
            if snap() != S0:
                now = snap()
                diff = fsmodel.diff_trees(plain(S0[0]), plain(now[0]))
                mt = [p_ for p_ in now[0] if now[0].get(p_) != S0[0].get(p_)] + ["outside/" + p_ for p_ in now[1] if now[1].get(p_) != S0[1].get(p_)]
                out.violation("C09:get_changes_touched_disk:" + kind, "%s %s" % (sub, diff or ("mtime only: %s" % mt[:4])), sub)
                break
            if changes is None:
                out.labels["no_change:" + kind] += 1
                continue
            # ---- perform
            try:
                announced = {r.path for r in changes.get_changed_resources()}
                descr = {}
                _collect_descriptions(changes, descr)
                expected = _reference_apply(plain(S0[0]), changes)
            except Exception as e:
                etype, site = _site(e)
                key = "site:%s:%s:%s" % (kind + "/preview", etype, site)
                if env.known(key):
                    out.excluded[key] += 1
                else:
                    out.violation("C09:internal_error:%s/preview:%s:%s" % (kind, etype, site), "%r %s" % (e, sub), sub)
                continue
            try:
                project.do(changes)
            except rex.RopeError:
                out.refused += 1
                if plain(snap()[0]) != plain(S0[0]):
                    out.violation("C09:refused_do_left_changes:" + kind, str(sub), sub)
                    break
                S0 = snap()  # a rolled-back do rewrites files with their old bytes: new mtimes, same content
                continue
            except Exception as e:
                etype, site = _site(e)
                key = "site:%s:%s:%s" % (kind + "/do", etype, site)
                if env.known(key):
                    out.excluded[key] += 1
                else:
                    out.violation("C09:internal_error:%s/do:%s:%s" % (kind, etype, site), "%r %s" % (e, sub), sub)
                if plain(snap()[0]) != plain(S0[0]):
                    out.violation("C09:failed_do_left_changes:" + kind, str(sub), sub)
                    break
                S0 = snap()
                continue
            S1 = snap()
            if S1[1] != S0[1]:
                out.violation("C09:out_of_project_module_modified:" + kind, str(sub), sub)
            before, after = plain(S0[0]), plain(S1[0])
            changed = {p.rstrip("/") for p in set(before) | set(after) if before.get(p, "-") != after.get(p, "-")}
            moved_roots = set()
            _collect_moves(changes, moved_roots)
            stray = {p for p in changed if p not in announced and not any(p == m or p.startswith(m + "/") for m in moved_roots)}
            if stray:
                out.violation("C09:unannounced_change:" + kind, "changed %s, announced %s" % (sorted(stray)[:4], sorted(announced)[:6]), sub)
            # (an ignored path that did not exist before is the destination of a requested move, not a modification)
            if any((p == "ignored" or p.startswith("ignored/") or (p.startswith("gen/") and p.endswith(".py"))) and (p in before or p + "/" in before) for p in changed):
                out.violation("C09:ignored_resource_modified:" + kind, str(sorted(changed)[:4]), sub)
            if restricted is not None:
                allowed = {r.path for r in restricted}
                # a moved module / package is only covered when the restriction names it (for a package: its __init__.py)
                pairs_ = []
                _collect_move_pairs(changes, pairs_)
                ok_moves = set()
                for s_, d_ in pairs_:
                    if s_ in allowed or s_ + "/__init__.py" in allowed:
                        ok_moves |= {s_, d_}
                bad = {p for p in changed if p not in allowed and not any(p == m or p.startswith(m + "/") for m in ok_moves)}
                if bad:
                    out.violation("C09:change_outside_restriction:" + kind, "%s not in %s" % (sorted(bad)[:4], sorted(allowed)), sub)
            if expected is not None and after != expected:
                out.violation("C09:disk_differs_from_change_objects:" + kind, fsmodel.diff_trees(expected, after), sub)
            move_pairs = []
            _collect_move_pairs(changes, move_pairs)
            for p, d in descr.items():
                if d is None:
                    continue
                q = p
                for s_, d_ in move_pairs:
                    if q == s_:
                        q = d_
                    elif q.startswith(s_ + "/"):
                        q = d_ + q[len(s_):]
                old = (before.get(p) or b"").decode("utf-8", "replace")
                new = (after.get(q) or b"").decode("utf-8", "replace")
                want = "".join(difflib.unified_diff(old.splitlines(True), new.splitlines(True), "a/" + p, "b/" + p))
                if d != want:
                    out.violation("C09:description_differs_from_effect:" + kind, "%s\npreviewed:\n%s\nhappened:\n%s" % (p, d[:400], want[:400]), sub)
                    break
            if changed:
                out.nontrivial.add(("c", kind, path, off))
                out.labels["performed:" + kind] += 1
            if not project.history.undo_list:
                continue  # an empty change set is not recorded
            try:
                project.history.undo()
            except NotImplementedError:
                out.notes["undo_not_implemented"] += 1
                break
            if plain(snap()[0]) != before:
                out.violation("C09:undo_did_not_restore:" + kind, fsmodel.diff_trees(before, plain(snap()[0])), sub)
                break
            S0 = snap()
    finally:
        project.close()
        core.rmtree(top)
    if not out.violations:
        _evaluate_multiproject(case, env, out)
    if not out.violations:
        _evaluate_symlink_and_own_module(case, env, out)
    return out


def _evaluate_symlink_and_own_module(case, env, out):
    """(1) a symlink inside the project that points outside the root is never a project resource, whatever the
    ignored_resources preference says: refactorings must not write through it; (2) moving a global of a package's
    __init__.py "to" that very package is a request that cannot be honoured and must be refused"""
    from rope.base import exceptions as rex
    from rope.base.project import Project
    from rope.refactor import move
    from rope.refactor.rename import Rename

    variant = case["restrict"] % 3
    top = core.fresh_dir("c09s")
    root, outside = os.path.join(top, "proj"), os.path.join(top, "elsewhere")
    files = {"a.py": "shared = 1\ndef use():\n    return shared\n", "pkg/__init__.py": "class Config:\n    level = 1\nDEFAULT = Config()\n", "b.py": "import pkg\nprint(pkg.Config.level)\n"}
    fsmodel.write_tree(root, files)
    fsmodel.write_tree(outside, {"hooks.py": "from a import shared\nprint(shared)\n", "plugins/plug.py": "import a\nprint(a.shared)\n"})
    os.symlink(os.path.join(outside, "hooks.py"), os.path.join(root, "hooks.py"))
    os.symlink(os.path.join(outside, "plugins"), os.path.join(root, "plugins"))
    kw = [{}, {"ignored_resources": []}, {"ignored_resources": ["*.pyc"]}][variant]
    # rope's own folder (default or custom name) holds a Python file that mentions the renamed name: it is rope's, not the
    # project's, whatever the ignored_resources preference says
    ropefolder = [".ropeproject", ".myrope", None][(case["restrict"] // 3) % 3]
    if ropefolder:
        fsmodel.write_tree(root, {ropefolder + "/extra.py": "from a import shared\nprint(shared)\n"})
    project = Project(root, ropefolder=ropefolder, **kw)
    sub = {"kind": "symlink", "ignored_resources": kw.get("ignored_resources", "default")}
    try:
        before = fsmodel.snapshot(outside)
        out.evals += 1
        out.labels["symlink_scenario:variant%d" % variant] += 1
        listed = sorted(r.path for r in project.get_files())
        if ropefolder and any(p.startswith(ropefolder + "/") for p in listed):
            out.violation("C09:rope_folder_listed_as_project_files", "get_files() = %s with ropefolder=%r %s" % (listed, ropefolder, sub), dict(sub, ropefolder=ropefolder))
            return
        if any(p.startswith("hooks") or p.startswith("plugins") for p in listed):
            out.violation("C09:symlink_to_outside_listed_as_project_file", "get_files() = %s with %s" % (listed, sub), sub)
            return
        try:
            changes = Rename(project, project.get_file("a.py"), 0).get_changes("zz_fresh")
            bad = [r.path for r in changes.get_changed_resources() if os.path.islink(r.real_path) or not os.path.realpath(r.real_path).startswith(os.path.realpath(root) + os.sep)]
            if bad:
                out.violation("C09:change_announces_resource_outside_root_through_symlink", "%s with %s" % (bad, sub), sub)
                return
            project.do(changes)
        except rex.RopeError:
            out.refused += 1
        if fsmodel.snapshot(outside) != before:
            out.violation("C09:wrote_outside_root_through_symlink", "%s" % (sub,), sub)
            return
        if ropefolder and open(os.path.join(root, ropefolder, "extra.py")).read() != "from a import shared\nprint(shared)\n":
            out.violation("C09:rope_folder_file_rewritten", "ropefolder=%r %s" % (ropefolder, sub), dict(sub, ropefolder=ropefolder))
            return
        # (2)
        out.evals += 1
        snap = fsmodel.snapshot(root)
        for dest in (project.get_folder("pkg"), "pkg"):
            try:
                res = project.get_file("pkg/__init__.py")
                ch_ = move.create_move(project, res, res.read().index("Config")).get_changes(dest)
            except rex.RopeError:
                out.refused += 1
                continue
            except Exception as e:
                etype, site = _site(e)
                key = "site:move_global_own_module:%s:%s" % (etype, site)
                if env.known(key):
                    out.excluded[key] += 1
                else:
                    out.violation("C09:internal_error:move_global_own_module:%s:%s" % (etype, site), repr(e), sub)
                continue
            out.violation("C09:unhonourable_request_accepted:move_global_to_its_own_module", "destination %r: a change set was returned: %s" % (dest if isinstance(dest, str) else dest.path, ch_.get_description()[:300]), sub)
            return
        if fsmodel.snapshot(root) != snap:
            out.violation("C09:refusal_touched_disk:move_global_own_module", "", sub)
            return
        out.nontrivial.add(("symlink", variant))
    finally:
        project.close()
        core.rmtree(top)


def _evaluate_multiproject(case, env, out):
    """cross-project refactorings (rope.refactor.multiproject): every project's change set lists only that project's own
    resources, computing is pure, performing touches only what each project's change set announced"""
    from rope.base import exceptions as rex
    from rope.base.project import Project
    from rope.refactor import move, multiproject, rename

    variant = case["restrict"] % 6
    top = core.fresh_dir("c09m")
    roots = [os.path.join(top, n) for n in ("mainproj", "clientproj")]
    main_files = {
        "xlib.py": "def xfn(a):\n    return a + 1\nXC = 5\n",
        "xdest.py": "def other():\n    return 0\n",
        "app.py": "import xlib\nprint(xlib.xfn(1), xlib.XC)\n",
    }
    client_files = {
        "user.py": "import xlib\nfrom xlib import xfn\nprint(xlib.xfn(2), xfn(3))\n",
        "xdest.py": "CLIENT_OWN = 1\n",  # same relative path as a file of the main project
        "xlib_notes.py": "# xfn is mentioned here\n",
    }
    fsmodel.write_tree(roots[0], main_files)
    fsmodel.write_tree(roots[1], client_files)
    projects = [Project(roots[0], ropefolder=None), Project(roots[1], ropefolder=None)]
    sub = {"kind": "multiproject", "variant": variant}
    try:
        snaps = lambda: [fsmodel.snapshot(r, with_mtime=True) for r in roots]
        S0 = snaps()
        out.evals += 1
        out.labels["multiproject:variant%d" % variant] += 1
        try:
            res = projects[0].get_file("xlib.py")
            off = main_files["xlib.py"].index("xfn") if variant % 2 == 0 else main_files["xlib.py"].index("XC")
            if variant < 2:
                cross = multiproject.MultiProjectRefactoring(rename.Rename, projects[1:])
                pcs = cross(projects[0], res, off).get_all_changes("zz_fresh")
            else:
                cross = multiproject.MultiProjectRefactoring(move.MoveGlobal, projects[1:])
                dest = projects[0].get_file("xdest.py")
                ref = cross(projects[0], res, off)
                pcs = ref.get_all_changes(dest) if variant < 4 else ref.get_all_changes(dest=dest)
        except rex.RopeError:
            out.refused += 1
            if snaps() != S0:
                out.violation("C09:multiproject:refusal_touched_disk", str(sub), sub)
            return
        except Exception as e:
            etype, site = _site(e)
            key = "site:multiproject:%s:%s" % (etype, site)
            if env.known(key):
                out.excluded[key] += 1
            else:
                out.violation("C09:internal_error:multiproject:%s:%s" % (etype, site), "%r %s" % (e, sub), sub)
            return
        if snaps() != S0:
            out.violation("C09:multiproject:get_changes_touched_disk", str(sub), sub)
            return
        announced = []
        for proj, changes in pcs:
            rs = list(changes.get_changed_resources()) if changes is not None else []
            foreign = [r.real_path for r in rs if r.project is not proj or not os.path.realpath(r.real_path).startswith(os.path.realpath(proj.address) + os.sep)]
            if foreign:
                out.violation("C09:multiproject:change_set_lists_another_projects_resource", "project %s announces %s" % (os.path.basename(proj.address), foreign), sub)
                return
            announced.append({r.path for r in rs})
        plain = lambda s: {p: (v[0] if isinstance(v, tuple) and len(v) == 2 else None) for p, v in s.items()}
        before = [plain(x) for x in S0]
        try:
            multiproject.perform([(p_, c_) for p_, c_ in pcs if c_ is not None])
        except rex.RopeError:
            out.refused += 1
            return
        after = [plain(x) for x in snaps()]
        for i in (0, 1):
            changed = {p.rstrip("/") for p in set(before[i]) | set(after[i]) if before[i].get(p, "-") != after[i].get(p, "-")}
            stray = changed - announced[i]
            if stray:
                out.violation("C09:multiproject:unannounced_change", "%s changed %s, announced %s" % (os.path.basename(roots[i]), sorted(stray), sorted(announced[i])), sub)
                return
        if announced[1]:
            out.nontrivial.add(("multiproject", variant))
    finally:
        for p_ in projects:
            p_.close()
        core.rmtree(top)


def _collect_descriptions(c, descr):
    from rope.base import change as rch

    if isinstance(c, rch.ChangeSet):
        seen = set()
        for x in c.changes:
            _collect_descriptions(x, descr)
    elif isinstance(c, rch.ChangeContents):
        if c.resource.path in descr:
            descr[c.resource.path] = None  # several edits of one file in one set: previews are relative to each other
        else:
            descr[c.resource.path] = c.get_description()
    for k in [k for k, v in descr.items() if v is None]:
        pass


def _collect_move_pairs(c, pairs):
    from rope.base import change as rch

    if isinstance(c, rch.ChangeSet):
        for x in c.changes:
            _collect_move_pairs(x, pairs)
    elif isinstance(c, rch.MoveResource):
        pairs.append((c.resource.path, c.new_resource.path))


def _collect_moves(c, roots):
    from rope.base import change as rch

    if isinstance(c, rch.ChangeSet):
        for x in c.changes:
            _collect_moves(x, roots)
    elif isinstance(c, rch.MoveResource):
        roots.add(c.resource.path)
        roots.add(c.new_resource.path)
    elif isinstance(c, rch.CreateResource):
        roots.add(c.resource.path)


def _reference_apply(tree, c):
    """R-FS reading of the change objects on a {path: bytes|None} tree"""
    from rope.base import change as rch

    t = dict(tree)

    def rec(x):
        if isinstance(x, rch.ChangeSet):
            for y in x.changes:
                rec(y)
        elif isinstance(x, rch.ChangeContents):
            t[x.resource.path] = x.new_contents.encode("utf-8")
        elif isinstance(x, rch.MoveResource):
            s, d = x.resource.path, x.new_resource.path
            if s + "/" in t:
                for p in list(t):
                    if p == s + "/" or p.startswith(s + "/"):
                        t[d + p[len(s):]] = t.pop(p)
            elif s in t:
                t[d] = t.pop(s)
        elif isinstance(x, rch.CreateResource):
            if x.resource.is_folder():
                t[x.resource.path + "/"] = None
            else:
                t.setdefault(x.resource.path, b"")
        elif isinstance(x, rch.RemoveResource):
            p = x.resource.path
            for q in list(t):
                if q == p or q == p + "/" or q.startswith(p + "/"):
                    del t[q]

    rec(c)
    return t
