"""C11 - undo and redo are exact inverses over any history of changes.

Case = initial tree + a list of abstract operations, interpreted in lock-step on a real rope
project and on a reference model (R-FS).  Oracle after every step:
  (i)  tree on disk == fold(base_tree, [pure(c) for c in history.undo_list])  - the tree is what you
       get by applying exactly the changes still listed as done ("as if the others had never been made");
  (ii) the set of changes a selective undo/redo moved == the reference dependency closure;
  (iii) new do clears redo; len(undo_list) <= limit after a do; undo/redo on an empty list raise
       HistoryError and change nothing; list sizes match the model.
"""
import itertools
import os

from hypothesis import strategies as st

from vlib import core, fsmodel

PID = "C11"
LEVEL = "exploration"
TECHNIQUE = "model-based history testing (Hypothesis op sequences + bounded exhaustive enumeration) against a pure tree-fold reference"
RULE = (
    "history = up to 14 ops drawn from do(edit/create/mkdir/move/multi-leaf/nested, optional remove), undo, redo, "
    "selective undo (optionally drop=True), selective redo, max_history_items change; plus ALL sequences of length "
    "<=5 (quick) / <=6 (thorough) over an 8-letter alphabet on a 3-file tree; non-trivial = history containing a "
    "selective undo/redo that leaves >=1 later change in force, or a limit truncation, or undo+redo+do; distinct by op list"
    "; history limit may be 0; changes that touch only an ignored resource, or mix it with ordinary ones"
)
ASSUMPTIONS = [
    "trees are UTF-8, LF-only (byte-exactness of other encodings/newlines is C16)",
    "the reference reads each performed change as a pure tree function (absolute content writes, moves, creations)",
]
EXHAUSTIVE_INNER = "all op sequences up to length 5 (quick) / 6 (thorough) over the alphabet A,B,AB,MV,U,R,SU0,SR0"
BUDGET = {"quick": (8000, 200), "thorough": (80000, 2400)}

KINDS = ["edit", "edit", "mkfile", "mkdir", "move", "edit", "move", "rm"]
LETTERS = ["A", "B", "AB", "MV", "U", "R", "SU0", "SR0"]
TREE3 = {"a.py": "x = 1\n", "b.py": "y = 2\n", "pk/": None, "pk/c.py": "z = 3\n"}


leafdesc = st.tuples(st.integers(0, 7), st.integers(0, 7), st.integers(0, 7))


@st.composite
def cases(draw, allow_rm=True):
    tree = draw(fsmodel.trees(min_files=2, max_files=4))
    tree = {p: (v if v is None or "\r" not in v else "crlf = 0\n") for p, v in tree.items()}
    n = draw(st.integers(2, 16))
    ops = []
    for _ in range(n):
        r = draw(st.integers(0, 15))
        if r <= 5:
            nleaf = draw(st.sampled_from([1, 1, 1, 2, 2, 3]))
            # 4th element: the change set ALSO rewrites the ignored file (a mixed change is still recorded and undoable)
            ops.append(["do", [list(draw(leafdesc)) for _ in range(nleaf)], draw(st.booleans()), draw(st.integers(0, 5)) == 0])
        elif r == 6:
            ops.append(["rename", draw(st.integers(0, 3))])
        elif r <= 8:
            ops.append(["undo"])
        elif r <= 10:
            ops.append(["redo"])
        elif r <= 12:
            ops.append(["sundo", draw(st.integers(0, 5)), draw(st.integers(0, 3)) == 0])
        elif r <= 14:
            ops.append(["sredo", draw(st.integers(0, 3))])
        else:
            ops.append(["limit", draw(st.sampled_from([0, 1, 2, 3, 5]))])
        if draw(st.integers(0, 11)) == 0:
            # a change that touches only an IGNORED resource: performed, not recorded for undo, but still "a new change"
            ops.append(["do_ignored", draw(st.integers(0, 99)), draw(st.booleans())])
    return {"tree": tree, "ops": ops}


def strategy(tier):
    return cases()


def enumerate_cases(tier, k, nworkers):
    maxlen = 5 if tier == "quick" else 6
    i = 0
    for n in range(1, maxlen + 1):
        for seq in itertools.product(range(len(LETTERS)), repeat=n):
            if i % nworkers == k:
                yield {"tree": TREE3, "letters": [LETTERS[x] for x in seq]}
            i += 1


def describe(case):
    return {"tree": sorted(case["tree"]), "ops": case.get("ops") or case.get("letters")}


# ---------------------------------------------------------------- reference


def _related(p, q):
    return p == q or p.startswith(q + "/") or q.startswith(p + "/")


def _touched(entry):
    """paths an entry touches: those of its spec plus, for a mixed change, the ignored file"""
    return set(fsmodel.touched_paths(entry["spec"])) | set(entry.get("extra_paths", ()))


def ref_closure(entries, idx):
    """entries[idx] plus, transitively, every later entry that shares a resource with, or lies
    inside / contains a folder of, something already collected"""
    chosen = [idx]
    paths = set(_touched(entries[idx]))
    for j in range(idx + 1, len(entries)):
        pj = _touched(entries[j])
        if any(_related(p, q) for p in pj for q in paths):
            chosen.append(j)
            paths |= pj
    return chosen


def _resolve_leaf(t, desc, n, allow_rm):
    kind = KINDS[desc[0] % len(KINDS)]
    files = sorted(p for p in t if not p.endswith("/"))
    dirs = sorted(p[:-1] for p in t if p.endswith("/"))
    a, b = desc[1], desc[2]
    if kind == "rm" and not allow_rm:
        kind = "edit"
    if kind == "edit" and files:
        return ["edit", files[a % len(files)], "v%d = %d\n" % (n, b)]
    if kind == "mkfile":
        parents = [""] + dirs
        return ["mkfile", parents[a % len(parents)], "f%d.py" % n]
    if kind == "mkdir":
        parents = [""] + dirs
        return ["mkdir", parents[a % len(parents)], "d%d" % n]
    if kind == "move" and (files or dirs):
        cands = files + dirs
        src = cands[a % len(cands)]
        parents = [d for d in [""] + dirs if d != src and not d.startswith(src + "/")]
        keep = os.path.basename(src)
        into = [d for d in parents if d != os.path.dirname(src) and not fsmodel._exists(t, (d + "/" + keep) if d else keep)]
        if into and b % 3 == 0:
            # destination given as the folder to move into ('' = the project root); the resource keeps its name
            parent = into[(b // 3) % len(into)]
            return ["move", src, (parent + "/" + keep) if parent else keep, "into"]
        parent = parents[b % len(parents)]
        base = "mv%d" % n + ("" if src + "/" in t else ".py")
        return ["move", src, (parent + "/" + base) if parent else base]
    if kind == "rm" and (files or dirs):
        cands = files + dirs
        return ["rm", cands[a % len(cands)]]
    return ["mkfile", "", "f%d.py" % n]


def _resolve_do(t, op, n, allow_rm=True):
    t = dict(t)
    leaves = []
    for i, d in enumerate(op[1]):
        leaf = _resolve_leaf(t, d, n * 10 + i, allow_rm)
        fsmodel._apply_leaf(t, leaf)
        leaves.append(leaf)
    if len(leaves) >= 2 and op[2]:
        return ["set", "c%d" % n, [leaves[0], ["set", "c%d.n" % n, leaves[1:]]]]
    return ["set", "c%d" % n, leaves]


def _letter_ops(letters):
    """translate the exhaustive alphabet into the generic op form, resolved lazily in evaluate"""
    return [["letter", x] for x in letters]


def _resolve_letter(t, x, n):
    files = sorted(p for p in t if not p.endswith("/"))
    if x == "A":
        return ["set", "c%d" % n, [["edit", files[0], "a%d = 0\n" % n]]]
    if x == "B":
        return ["set", "c%d" % n, [["edit", files[1 % len(files)], "b%d = 0\n" % n]]]
    if x == "AB":
        return ["set", "c%d" % n, [["edit", files[0], "ab%d = 0\n" % n], ["edit", files[1 % len(files)], "ab%d = 1\n" % n]]]
    if x == "MV":
        return ["set", "c%d" % n, [["move", files[0], "pk/m%d.py" % n if n % 2 else "m%d.py" % n]]]
    raise ValueError(x)


# ---------------------------------------------------------------- evaluation


IGNORED = "zz_ignored.txt"


def _snap(root):
    t = fsmodel.snapshot(root)
    t.pop(IGNORED, None)
    return t


def evaluate(case, env):
    from rope.base import exceptions as rex
    from rope.base.project import Project

    out = core.Outcome()
    ops = case.get("ops")
    if ops is None:
        ops = _letter_ops(case["letters"])
    root = core.fresh_dir("c11")
    project = None
    try:
        fsmodel.write_tree(root, case["tree"])
        # one ignored file lives next to the tree; it is outside the model (the snapshots below leave it out)
        with open(os.path.join(root, IGNORED), "w") as fh:
            fh.write("i = 0\n")
        project = Project(root, ropefolder=None, ignored_resources=[IGNORED])
        base = fsmodel.tree_bytes(case["tree"])  # tree with the truncated (forgotten) changes applied
        entries = {}  # id(change) -> {"spec", "obj", "n"}
        m_undo, m_redo = [], []  # model lists of entry dicts (order synchronised with rope's after each step)
        limit = 100
        feats = set()
        step = 0
        for op in ops:
            step += 1
            kind = op[0]
            tree_now = _fold(base, m_undo)
            sub = {"step": step, "op": op}
            if kind == "do_ignored":
                from rope.base.change import ChangeContents, ChangeSet

                had_redo = bool(m_redo)
                chs = ChangeSet("ignored %d" % step)
                chs.add_change(ChangeContents(project.get_file(IGNORED), "i = %d\n" % (op[1] + step)))
                project.do(chs)
                out.evals += 1
                m_redo = []
                if had_redo:
                    feats.add("ignored_change_clears_redo")
                if project.history.redo_list:
                    out.violation("C11:do:redo_not_cleared_by_unrecorded_change", "redo list has %d entries after a new change to an ignored file" % len(project.history.redo_list), sub)
                    break
                if len(project.history.undo_list) != len(m_undo):
                    out.violation("C11:do:ignored_change_recorded", "undo list %d, expected %d" % (len(project.history.undo_list), len(m_undo)), sub)
                    break
                with open(os.path.join(root, IGNORED)) as fh:
                    if fh.read() != "i = %d\n" % (op[1] + step):
                        out.violation("C11:do:ignored_change_not_performed", "", sub)
                        break
                continue
            if kind == "rename":
                got = _rope_rename(project, tree_now, op[1], step)
                if got is None:
                    continue
                kind = "do"
                ch, spec = got
                feats.add("real_rename_changeset")
            elif kind in ("do", "letter") and (kind == "do" or op[1] in ("A", "B", "AB", "MV")):
                spec = _resolve_do(tree_now, op, step) if kind == "do" else _resolve_letter(tree_now, op[1], step)
                ch = fsmodel.build_change(project, spec, tree_now)
                if kind == "do" and len(op) > 3 and op[3]:
                    from rope.base.change import ChangeContents

                    ch.add_change(ChangeContents(project.get_file(IGNORED), "i = 'mixed %d'\n" % step))
                    feats.add("mixed_ignored_and_ordinary_change")
                kind = "do"
            if kind == "do":
                had_redo = bool(m_redo)
                try:
                    project.do(ch)
                except Exception as e:
                    out.violation("C11:do:raised:" + type(e).__name__, "valid change %r raised %r" % (spec, e), sub)
                    break
                e = {"spec": spec, "obj": ch, "n": step}
                if len(op) > 3 and op[0] == "do" and op[3]:
                    e["extra_paths"] = [IGNORED]
                entries[id(ch)] = e
                m_undo.append(e)
                m_redo = []
                if had_redo:
                    feats.add("do_clears_redo")
                if len(m_undo) > limit:
                    feats.add("truncation")
                    for old in m_undo[: len(m_undo) - limit]:
                        base = fsmodel.apply_spec(base, old["spec"])
                    m_undo = m_undo[len(m_undo) - limit:]
                out.evals += 1
                if project.history.redo_list:
                    out.violation("C11:do:redo_not_cleared", "redo list has %d entries after a new change" % len(project.history.redo_list), sub)
                if len(project.history.undo_list) > limit:
                    out.violation("C11:do:limit_exceeded", "undo list %d > limit %d" % (len(project.history.undo_list), limit), sub)
            elif kind == "limit":
                limit = op[1]
                project.prefs.set("max_history_items", limit)
                continue
            else:
                if kind == "letter":
                    kind = {"U": "undo", "R": "redo", "SU0": "sundo", "SR0": "sredo"}[op[1]]
                    op = [kind, 0, False]
                lst = m_undo if kind in ("undo", "sundo") else m_redo
                if not lst:
                    before = _snap(root)
                    try:
                        (project.history.undo if kind in ("undo", "sundo") else project.history.redo)()
                        out.violation("C11:%s:empty_not_refused" % kind, "no HistoryError on empty list", sub)
                    except rex.HistoryError:
                        pass
                    except Exception as e:
                        out.violation("C11:%s:empty_wrong_error" % kind, repr(e), sub)
                    out.evals += 1
                    if _snap(root) != before:
                        out.violation("C11:%s:empty_changed_tree" % kind, "", sub)
                    continue
                idx = len(lst) - 1 if kind in ("undo", "redo") else op[1] % len(lst)
                drop = kind == "sundo" and bool(op[2])
                closure = ref_closure(lst, idx)
                moved = [lst[i] for i in closure]
                rest = [x for i, x in enumerate(lst) if i not in closure]
                if any(fsmodel.has_kind(x["spec"], "rm") for x in moved) and kind in ("undo", "sundo"):
                    if env.known("rm_undo_not_implemented"):
                        out.excluded["rm_undo_not_implemented"] += 1
                        break
                if drop and _stale_redo(moved, m_redo):
                    feats.add("drop_with_dependent_redo")
                    if env.known("drop_leaves_dependent_redo"):
                        out.excluded["drop_leaves_dependent_redo"] += 1
                        break
                rlist = project.history.undo_list if kind in ("undo", "sundo") else project.history.redo_list
                target = rlist[idx]
                if entries[id(target)] is not lst[idx]:
                    raise core.HarnessError("model/rope list order out of sync")
                try:
                    if kind == "undo":
                        res = project.history.undo()
                    elif kind == "redo":
                        res = project.history.redo()
                    elif kind == "sundo":
                        res = project.history.undo(target, drop=drop)
                    else:
                        res = project.history.redo(target)
                except NotImplementedError as e:
                    out.violation("C11:%s:not_implemented" % kind, repr(e), sub)
                    break
                except Exception as e:
                    out.violation("C11:%s:raised:%s" % (kind, type(e).__name__), repr(e), sub)
                    break
                out.evals += 1
                got = sorted(entries[id(c)]["n"] for c in res) if not drop else None
                want = sorted(x["n"] for x in moved)
                if got is not None and got != want:
                    out.violation("C11:%s:closure" % kind, "changes moved %s, reference closure %s" % (got, want), sub)
                if kind in ("undo", "sundo"):
                    m_undo = rest
                    if not drop:
                        m_redo = m_redo + moved
                    if kind == "sundo" and rest[idx:]:
                        feats.add("selective_undo_keeps_later")
                    if drop:
                        feats.add("drop")
                else:
                    m_redo = rest
                    m_undo = m_undo + moved
                    if kind == "sredo" and len(rest) > idx:
                        feats.add("selective_redo_keeps_later")
                    feats.add("redo")
            # ---- invariants after the step
            r_undo = [entries.get(id(c)) for c in project.history.undo_list]
            r_redo = [entries.get(id(c)) for c in project.history.redo_list]
            if None in r_undo or None in r_redo:
                out.violation("C11:lists:foreign_entry", "history holds a change the harness never performed", sub)
                break
            if sorted(x["n"] for x in r_undo) != sorted(x["n"] for x in m_undo) or sorted(x["n"] for x in r_redo) != sorted(x["n"] for x in m_redo):
                out.violation(
                    "C11:%s:lists" % kind,
                    "undo %s redo %s, model undo %s redo %s" % ([x["n"] for x in r_undo], [x["n"] for x in r_redo], [x["n"] for x in m_undo], [x["n"] for x in m_redo]),
                    sub,
                )
                break
            m_undo, m_redo = r_undo, r_redo  # adopt rope's order; only membership is prescribed
            try:
                want_tree = _fold(base, m_undo)
            except fsmodel.SpecError as e:
                out.notes["fold_undefined"] += 1
                break
            got_tree = _snap(root)
            if got_tree != want_tree:
                out.violation(
                    "C11:%s:tree" % kind,
                    "tree differs from the fold of the changes still done: %s" % fsmodel.diff_trees(want_tree, got_tree),
                    sub,
                )
                break
        for f in feats:
            out.labels[f] += 1
        if feats & {"selective_undo_keeps_later", "selective_redo_keeps_later", "truncation"} or {"redo", "do_clears_redo"} <= feats:
            out.nontrivial.add("h")
    finally:
        if project is not None:
            try:
                project.close()
            except Exception:
                pass
        core.rmtree(root)
    return out


def _rope_rename(project, tree_now, i, step):
    """a real refactoring change set: Rename of the first identifier of the i-th python file; the
    reference reads the returned change objects (contents writes / moves) as a pure tree function"""
    import io
    import keyword
    import tokenize

    from rope.base import change as rch
    from rope.base import exceptions as rex
    from rope.refactor.rename import Rename

    files = sorted(p for p in tree_now if p.endswith(".py"))
    if not files:
        return None
    path = files[i % len(files)]
    try:
        src = tree_now[path].decode("utf-8")
        toks = [t for t in tokenize.generate_tokens(io.StringIO(src).readline) if t.type == tokenize.NAME and not keyword.iskeyword(t.string)]
    except Exception:
        return None
    if not toks or toks[0].start[0] != 1:
        return None
    try:
        changes = Rename(project, project.get_file(path), toks[0].start[1]).get_changes("rn%d" % step)
    except rex.RopeError:
        return None
    leaves = []
    for c in changes.changes:
        if isinstance(c, rch.ChangeContents):
            leaves.append(["edit", c.resource.path, c.new_contents])
        elif isinstance(c, rch.MoveResource):
            leaves.append(["move", c.resource.path, c.new_resource.path])
        else:
            return None
    if not leaves:
        return None
    return changes, ["set", "rename", leaves]


def _fold(base, lst):
    t = base
    for e in lst:
        t = fsmodel.apply_spec(t, e["spec"])
    return t


def _stale_redo(dropped, m_redo):
    paths = set()
    for e in dropped:
        paths |= _touched(e)
    for r in m_redo:
        if any(_related(p, q) for p in _touched(r) for q in paths):
            return True
    return False
