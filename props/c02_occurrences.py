"""C02 - occurrence finding is exact and independent of the query occurrence.

Projects come from G-PROJ with the ground-truth partition of identifier tokens into bindings.
For EVERY token q of EVERY binding class, findit.find_occurrences(project, resource, offset(q)) must
return exactly the class's token set (set equality of (path, region)).
"""
import os

from hypothesis import strategies as st

from vlib import core, fsmodel, projgen

PID = "C02"
LEVEL = "exploration"
TECHNIQUE = "set-equality oracle against a constructed ground-truth binding table (Hypothesis program generator), every occurrence used as query"
RULE = (
    "G-PROJ projects (1-3 flat modules, optional package, every import style, classes/instances/inheritance, shadowing from a "
    "10-name pool, decoys in strings/comments); inner loop: every token of every binding class is the query; non-trivial = "
    "class with >= 2 tokens while another class uses the same identifier; distinct by (project hash, binding id, query index)"
)
ASSUMPTIONS = [
    "ground truth is the generator's binding table; it is validated by reference renames that must leave the program's output unchanged (vlib self-check)",
    "module/package names and dunder names are not queried here (C01/C05 move modules)",
]
BUDGET = {"quick": (800, 240), "thorough": (15000, 2700)}


@st.composite
def kwargs_scenarios(draw):
    """shape G-PROJ does not produce: keywords swallowed by **kwargs are dictionary keys, not occurrences of a visible variable
    of the same name.  The expected occurrence sets are written down here, token by token."""
    var = draw(st.sampled_from(["timeout", "retries"]))
    cfg = "def make(**options):\n    return sorted(options.items())\n"
    main = "from cfg import make\ntimeout = 30\nretries = 3\nprint(make(%s=%s * 2, other=retries))\nprint(timeout + retries)\n" % (var, var)
    import re

    expected = {}
    for name in ("timeout", "retries"):
        offs = [m.start() for m in re.finditer(r"\b%s\b" % name, main)]
        if name == var:
            kw = main.index("make(" + var + "=") + 5
            offs = [o for o in offs if o != kw]
        expected[name] = [["main.py", o] for o in offs]
    return {"scenario": "kwargs_keyword", "files": {"cfg.py": cfg, "main.py": main}, "expected": expected}


def _build(parts_by_file):
    """{path: [text | (identifier, group)]} -> files, {group: [[path, offset], ...]}"""
    files, groups = {}, {}
    for path, parts in parts_by_file.items():
        text = ""
        for part in parts:
            if isinstance(part, tuple):
                groups.setdefault(part[1], []).append([path, len(text)])
                text += part[0]
            else:
                text += part
        files[path] = text
    return files, groups


@st.composite
def header_scenarios(draw):
    """a class header that spans several lines: the base and the metaclass keyword value stand on continuation lines and
    are also names of members of the class (two different bindings each)"""
    b, m = draw(st.sampled_from([("base", "meta"), ("handler", "kind"), ("_b", "M2")]))
    one_line = draw(st.integers(0, 3)) == 0
    sep1, sep2, sep3 = ("", ", ", "") if one_line else ("\n    ", ",\n    ", ",\n")
    files, groups = _build({"hdr.py": [
        (b, "outer_" + b), " = object\n", (m, "outer_" + m), " = type\nclass C(" + sep1, (b, "outer_" + b), sep2 + "metaclass=", (m, "outer_" + m), sep3 + "):\n    ",
        (b, "member_" + b), " = 3\n    ", (m, "member_" + m), " = 4\nprint(C.", (b, "member_" + b), ", C.", (m, "member_" + m), ", C.__mro__[1] is ", (b, "outer_" + b), ", type(C) is ", (m, "outer_" + m), ")\n",
    ]})
    return {"scenario": "class_header_lines", "files": files, "expected": groups}


@st.composite
def star_scenarios(draw):
    """several star imports that export the same name: the LAST one binds it"""
    mods = draw(st.permutations(["s1", "s2", "s3"]))[: draw(st.integers(2, 3))]
    parts = {}
    for k_, mname in enumerate(mods):
        parts[mname + ".py"] = [("width", "width_of_" + mname), " = %d\n" % (k_ + 1), ("only_" + mname, "only_" + mname), " = 0\n"]
    last = mods[-1]
    use = ["from %s import *\n" % m_ for m_ in mods] + ["print(", ("width", "width_of_" + last), " + ", ("only_" + mods[0], "only_" + mods[0]), ")\n"]
    parts["use.py"] = use
    files, groups = _build(parts)
    return {"scenario": "star_import_order", "files": files, "expected": groups}


@st.composite
def global_scenarios(draw):
    """one global statement that declares several names, each assigned in the function and used at module level"""
    names = draw(st.permutations(["counter", "total", "last"]))[: draw(st.integers(2, 3))]
    parts = []
    for n in names:
        parts += [(n, n), " = 0\n"]
    parts += ["def bump():\n    global "]
    for k_, n in enumerate(names):
        parts += ([", "] if k_ else []) + [(n, n)]
    parts += ["\n"]
    for n in names:
        parts += ["    ", (n, n), " = ", (n, n), " + 1\n"]
    parts += ["bump()\nprint("]
    for k_, n in enumerate(names):
        parts += ([", "] if k_ else []) + [(n, n)]
    parts += [")\n"]
    files, groups = _build({"glob.py": parts})
    return {"scenario": "multi_name_global", "files": files, "expected": groups}


def strategy(tier):
    return st.one_of(*([projgen.projects()] * 15 + [kwargs_scenarios(), header_scenarios(), star_scenarios(), global_scenarios()]))


def describe(case):
    if case.get("scenario"):
        return {"scenario": case["scenario"], "files": case["files"]}
    return {"files": {p: s[:300] for p, s in list(case["files"].items())[:3]}, "flags": case["flags"]}


def _evaluate_scenario(case, env):
    from rope.base import exceptions as rex
    from rope.base.project import Project
    from rope.contrib import findit

    out = core.Outcome()
    root = core.fresh_dir("c02s")
    fsmodel.write_tree(root, case["files"])
    project = Project(root, ropefolder=None)
    try:
        for name, toks in sorted(case["expected"].items()):
            want = sorted((p_, o_) for p_, o_ in toks)
            for p_, o_ in toks:
                out.evals += 1
                out.labels["scenario:" + case["scenario"]] += 1
                try:
                    got = sorted((l.resource.path, l.region[0]) for l in findit.find_occurrences(project, project.get_file(p_), o_))
                except rex.RopeError:
                    out.refused += 1
                    continue
                if got != want:
                    out.violation(
                        "C02:scenario:%s" % case["scenario"],
                        "query %s:%d (%r): expected %s, got %s\n%s" % (p_, o_, name, want, got, case["files"][p_]),
                        {"path": p_, "offset": o_},
                    )
                    return out
            if len(toks) >= 2:
                out.nontrivial.add("s:" + name)
    finally:
        project.close()
        core.rmtree(root)
    return out


def class_tokens(case):
    by = {}
    for t in case["tokens"]:
        by.setdefault(t[3], []).append(t)
    return by


def open_project(case):
    from rope.base.project import Project

    root = core.fresh_dir("proj")
    fsmodel.write_tree(root, case["files"])
    return root, Project(root, ropefolder=None)


def predicate_same_line_comps(case, bid, by):
    """known-finding input class: the binding is a comprehension variable and another comprehension on the same
    line uses the same variable name"""
    info = case["classes"].get(bid, {})
    if info.get("kind") != "compvar":
        return False
    mine = by[bid]
    lines = {(t[0], t[5]) for t in mine}
    for b2, ts in by.items():
        if b2 != bid and case["classes"].get(b2, {}).get("kind") == "compvar" and case["classes"][b2]["name"] == info["name"]:
            if any((t[0], t[5]) in lines for t in ts):
                return True
    return False


def evaluate(case, env):
    from rope.base import exceptions as rex
    from rope.contrib import findit

    if case.get("scenario"):
        return _evaluate_scenario(case, env)
    out = core.Outcome()
    by = class_tokens(case)
    names = {}
    for bid, ts in by.items():
        names.setdefault(case["classes"].get(bid, {}).get("name"), set()).add(bid)
    root, project = open_project(case)
    try:
        for f in case["flags"]:
            out.labels["flag:" + f] += 1
        for bid, ts in sorted(by.items()):
            info = case["classes"].get(bid)
            if info is None or bid.startswith("mod:"):
                continue
            if predicate_same_line_comps(case, bid, by):
                out.labels["same_line_comps"] += 1
                if env.known("same_line_comprehensions"):
                    out.excluded["same_line_comprehensions"] += 1
                    continue
            if bid in case.get("header_collision_bids", ()):
                out.labels["class_header_collision"] += 1
                if env.known("class_header_name_collision"):
                    out.excluded["class_header_name_collision"] += 1
                    continue
            if bid in case.get("subclass_write_bids", ()):
                out.labels["attr_written_in_subclass"] += 1
                if env.known("attribute_written_through_self_in_subclass"):
                    out.excluded["attribute_written_through_self_in_subclass"] += 1
                    continue
            if info["kind"] in ("modalias", "alias"):
                out.labels["module_alias_query"] += 1
                if env.known("module_alias_is_the_module"):
                    out.excluded["module_alias_is_the_module"] += 1
                    continue
            want = {(t[0], (t[1], t[2])) for t in ts}
            decoyed = len(names.get(info["name"], ())) > 1
            for qi, q in enumerate(ts):
                res = project.get_file(q[0])
                out.evals += 1
                try:
                    locs = findit.find_occurrences(project, res, q[1])
                except rex.RopeError as e:
                    out.refused += 1
                    out.violation("C02:refused:%s" % info["kind"], "find_occurrences refused at %s:%d (%s %r): %r" % (q[0], q[1], info["kind"], info["name"], e), {"bid": bid, "q": qi})
                    break
                except Exception as e:
                    out.violation("C02:raised:%s:%s" % (type(e).__name__, info["kind"]), "at %s:%d: %r" % (q[0], q[1], e), {"bid": bid, "q": qi})
                    break
                got = {(loc.resource.path, tuple(loc.region)) for loc in locs}
                if got != want:
                    missing = sorted(want - got)
                    extra = sorted(got - want)
                    kind = ("missing" if missing else "") + ("extra" if extra else "")
                    out.violation(
                        "C02:%s:%s:%s" % (kind, info["kind"], q[4]),
                        "query %s:%d (%s %r, role %s): missing %s extra %s" % (q[0], q[1], info["kind"], info["name"], q[4], _show(case, missing), _show(case, extra)),
                        {"bid": bid, "q": qi},
                    )
                    break
                if len(ts) >= 2 and decoyed:
                    out.nontrivial.add((bid, qi))
    finally:
        project.close()
        core.rmtree(root)
    return out


def _show(case, items):
    res = []
    for path, (a, b) in items[:4]:
        src = case["files"].get(path, "")
        ls = src.rfind("\n", 0, a) + 1
        le = src.find("\n", b)
        res.append("%s:%d %r" % (path, a, src[ls: le if le >= 0 else len(src)].strip()[:60]))
    return res
