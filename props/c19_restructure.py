"""C19 - pattern matching and restructuring rewrite exactly the real instances.

Module text (G-SRC "clean" profile + corpus-free: no construct with a recorded patchedast defect); a node N of the
module (an expression or 1-3 consecutive statements) is abstracted into a pattern by replacing k sub-expressions with
${w} wildcards (equal sub-trees may share one), so at least one instance exists.  R-MATCH, a reference structural
matcher written for this check, decides which nodes are instances.
 (1) matched nodes of SimilarFinder == R-MATCH's instances inside the requested region;
 (2) per match: equal wildcards bound to AST-equal code, bindings inside the match, match inside the region,
     and the pattern with the bound text substituted parses to the matched node;
 (3) Restructure / restructure.replace with goal == pattern leaves the module's AST unchanged;
 (4) with a goal that wraps / permutes the wildcards in argument positions the result's AST equals the reference
     substitution (bottom-up transformer) and text outside the matches is untouched.
"""
import ast
import copy
import re

from hypothesis import strategies as st

from vlib import core, srcgen

PID = "C19"
LEVEL = "exploration"
TECHNIQUE = "differential testing against a reference structural matcher / AST substituter (patterns derived from the module's own nodes, so instances exist); Hypothesis"
RULE = (
    "G-SRC text without recorded patchedast hazards x node N (expression or 1-3 statements) x up to 3 sub-expressions abstracted to "
    "wildcards (shared for equal sub-trees) x region (whole module or a run of top-level statements) x goal (pattern itself | "
    "wildcards as arguments of a wrapping call, permuted); non-trivial = >= 2 instances or a wildcard bound to a non-atomic expression; "
    "distinct by (text hash, pattern, region)"
    "; statement patterns are also run with a goal that differs from the pattern (reference: windows chosen left to right without overlap); a typed-wildcard probe (type=..., unsure) with ground-truth types; crafted modules for optional AST fields, constants of different types and runs of self-similar statements"
)
ASSUMPTIONS = [
    "goals put the bound code into argument positions of a call, where no precedence issue can arise (the verbatim-insertion defect is a recorded finding)",
    "regions are aligned with top-level statement boundaries, so interpreter positions and rope regions agree on containment",
]
BUDGET = {"quick": (4800, 240), "thorough": (100000, 2700)}

WILD = "__w%d__"


@st.composite
def cases(draw):
    src = draw(srcgen.grammar(profile="clean", budget=44))
    return {
        "src": src,
        "node": draw(st.integers(0, 10 ** 6)),
        "subs": [draw(st.integers(0, 10 ** 6)) for _ in range(draw(st.integers(0, 3)))],
        "share": draw(st.booleans()),
        "stmts": draw(st.sampled_from([0, 0, 0, 1, 2, 3])),
        "region": [draw(st.integers(0, 50)), draw(st.integers(0, 50))] if draw(st.booleans()) else None,
        "goal": draw(st.sampled_from(["same", "same", "wrap", "wrap_permuted"])),
    }


def strategy(tier):
    return cases()


CRAFTED = [
    "x = a + a\ny = a + b\nz = f(a + a, b + b)\n",
    "def f(p, q):\n    r = g(p, p)\n    s = g(p, q)\n    return g(g(p, p), q)\n",
    "a = h(1, 2)\nb = h(1, 3)\nif a:\n    c = h(h(1, 2), 2)\n    d = h(1, 2)\nelse:\n    c = 0\n    d = h(1, 2)\n",
    "x = 1\ny = 2\nx = 1\nz = 2\nx = 1\ny = 2\n",
    "v = [k * k for k in w]\nu = [k * j for k in w]\nt = {k * k: k for k in w}\n",
    # runs of self-similar statements: windows of a multi-statement pattern overlap
    "s.append(a)\ns.append(b)\ns.append(c)\ns.append(d)\ns.append(e)\nt.append(a)\nt.append(b)\n",
    "s.append(a)\ns.append(a)\ns.append(a)\ns.append(a)\ns.append(a)\nif a:\n    s.append(a)\n    s.append(a)\n    s.append(a)\ns.append(a)\n",
    # constants: equal values of different types are different code
    "p = n // 2\nq = n // 2.0\nr = n // 2\ns = n * True\nt = n * 1\nu = n * 1.0\nv = n + 'a'\nw = n + b'a'\n",
    # nodes with optional fields: the same number of present children in DIFFERENT slots must not match
    "p = items[n:]\nq = items[:n]\nr = items[::n]\ns = items[n:m]\nt = items[n::m]\nu = items[:n:m]\n",
    "def f(e, c):\n    raise e\ndef g(e, c):\n    raise e from c\ndef h(e, c):\n    try:\n        e = c\n        c = e\n    finally:\n        e = c\n        c = e\n    e = c\n    c = e\n",
    # instances in the items of a with statement (a node without a region of its own above nodes that have one)
    "with h(1, 2) as f, h(1, 3) as g:\n    x = h(1, 2)\nasync def co(p):\n    async with h(p, 2) as k, h(1, 2):\n        return h(p, 2)\n",
    # the same statements nested in the first top-level statement and again at top level further down: with a region that
    # ends after the first statement, the instance behind the region comes EARLIER in tree order than the one inside it
    "def f(n):\n    a = n\n    b = a\n    if n:\n        a = n\n        b = a\n    return b\nc = 2\na = n\nb = a\nwith a as f, b as g:\n    a = n\n    b = a\n",
]


def enumerate_cases(tier, k, nworkers):
    """a small exhaustive suite over crafted modules: every node, every pair of abstracted sub-expressions, shared or not"""
    i = 0
    for a in range(3):
        for b in range(3):
            if i % nworkers == k:
                yield {"kind": "typed", "a": a, "b": b}
            i += 1
    for src in CRAFTED:
        for node in range(16):
            for subs in ([], [0], [1], [0, 1], [0, 2], [1, 2]):
                for share in (False, True):
                    for stmts in (0, 1, 2):
                        for goal in ("same", "wrap_permuted"):
                            for region in ((None, [0, 0], [1, 0], [0, 1]) if not subs and not share else (None,)):
                                if i % nworkers == k:
                                    yield {"src": src, "node": node, "subs": subs, "share": share, "stmts": stmts, "region": region, "goal": goal}
                                i += 1


TYPED_SRC = (
    "class Box:\n    def merge(self, other):\n        return self\nclass Bag:\n    def merge(self, other):\n        return self\n"
    "def run(param, extra):\n    b1 = Box()\n    b2 = Box()\n    g1 = Bag()\n"
    "    r1 = b1.merge(b2)\n    r2 = b1.merge(extra)\n    r3 = param.merge(b2)\n    r4 = g1.merge(b1)\n    r5 = b2.merge(g1)\n    return r1\n"
)
# ground truth for the five candidate calls: (type of the receiver, type of the argument)
TYPED_TRUTH = {11: ("Box", "Box"), 12: ("Box", "?"), 13: ("?", "Box"), 14: ("Bag", "Box"), 15: ("Box", "Bag")}
TYPED_CHECKS = [None, "type=mod.Box", "type=mod.Box,unsure"]


def describe(case):
    if case.get("kind") == "typed":
        return case
    return {"src": case["src"][:400], "goal": case["goal"]}


# ------------------------------------------------------------------ reference matcher


def _is_wild(n):
    return isinstance(n, ast.Name) and re.fullmatch(r"__w\d+__", n.id)


def _eq(a, b):
    """structural equality ignoring expression contexts"""
    if isinstance(a, ast.AST):
        if type(a) is not type(b):
            return False
        for f in a._fields:
            x, y = getattr(a, f, None), getattr(b, f, None)
            if isinstance(x, ast.expr_context):
                continue
            if not _eq(x, y):
                return False
        return True
    if isinstance(a, list):
        return isinstance(b, list) and len(a) == len(b) and all(_eq(x, y) for x, y in zip(a, b))
    return type(a) is type(b) and a == b


def rmatch(p, n, env):
    if _is_wild(p):
        if not isinstance(n, ast.expr):
            return False
        if p.id in env:
            return _eq(env[p.id], n)
        env[p.id] = n
        return True
    if isinstance(p, ast.AST):
        if type(p) is not type(n):
            return False
        for f in p._fields:
            x, y = getattr(p, f, None), getattr(n, f, None)
            if isinstance(x, ast.expr_context):
                continue
            if not rmatch(x, y, env):
                return False
        return True
    if isinstance(p, list):
        return isinstance(n, list) and len(p) == len(n) and all(rmatch(x, y, env) for x, y in zip(p, n))
    return type(p) is type(n) and p == n


_LINES = {}


def _span(node, starts):
    """(start, end) character offsets; ast columns are UTF-8 bytes"""
    lines = _LINES[id(starts)]
    a = lines[node.lineno - 1].encode("utf-8")[: node.col_offset].decode("utf-8", "ignore")
    b = lines[node.end_lineno - 1].encode("utf-8")[: node.end_col_offset].decode("utf-8", "ignore")
    return (starts[node.lineno - 1] + len(a), starts[node.end_lineno - 1] + len(b))


def _stmt_lists(tree):
    for node in ast.walk(tree):
        for f, v in ast.iter_fields(node):
            if isinstance(v, list) and v and isinstance(v[0], ast.stmt):
                yield v


def evaluate(case, env):
    from rope.base import exceptions as rex
    from rope.base.project import Project
    from rope.refactor import restructure, similarfinder

    out = core.Outcome()
    if case.get("kind") == "precedence":
        return _precedence_probe(case, env)
    if case.get("kind") == "typed":
        return _typed_probe(case, env)
    src = case["src"]
    if not srcgen.compiles(src):
        out.notes["skipped_non_ascii_or_invalid"] += 1
        return out
    feats = srcgen.features(src)
    from props import c08_patchedast as c08

    hazard = feats & (set(c08.FEATURE_PREDICATES) | {"starred", "slice_empty_step", "annotations", "class_kw", "fstring", "fstring_nested_quote"})
    if hazard:
        out.labels["c08_hazard_text"] += 1
        if env.known("text_has_patchedast_hazard"):
            out.excluded["text_has_patchedast_hazard"] += 1
            return out
    tree = ast.parse(src)
    lines = src.split("\n")
    starts = [0]
    for ln in lines:
        starts.append(starts[-1] + len(ln) + 1)
    _LINES.clear()
    _LINES[id(starts)] = lines

    # ---- choose N and derive the pattern
    if case["stmts"]:
        lists = [l for l in _stmt_lists(tree) if len(l) >= 1]
        sl = lists[case["node"] % len(lists)]
        k = min(case["stmts"], len(sl))
        i0 = (case["node"] // 7) % (len(sl) - k + 1)
        target = sl[i0: i0 + k]
        a = starts[target[0].lineno - 1]
        b = _span(target[-1], starts)[1]
        # whole lines, dedented
        text = src[a:b]
        ind = len(text) - len(text.lstrip(" \t"))
        indent = text[:ind]
        if any(ln.strip() and not ln.startswith(indent) for ln in text.split("\n")):
            out.notes["odd_indentation_skipped"] += 1
            return out
        base_text = "\n".join(ln[ind:] if ln.startswith(indent) else ln for ln in text.split("\n"))
        # CPython counts a trailing ';' into a compound statement's extent; it is not part of the statement
        base_text = base_text.rstrip().rstrip(";").rstrip()
        if target[0].col_offset != ind and lines[target[0].lineno - 1][: target[0].col_offset].strip():
            out.notes["statement_not_at_line_start"] += 1
            return out
        try:
            pat_nodes = ast.parse(base_text).body
        except SyntaxError:
            out.notes["pattern_text_unparsable"] += 1
            return out
        if len(pat_nodes) == 1 and isinstance(pat_nodes[0], ast.Expr):
            # documented: a pattern that is a single expression is an expression pattern
            out.notes["single_expression_statement_skipped"] += 1
            return out
        exprs = [n for s_ in pat_nodes for n in ast.walk(s_) if isinstance(n, ast.expr) and isinstance(getattr(n, "ctx", ast.Load()), ast.Load)]
        plines = base_text.split("\n")
    else:
        cands = [n for n in ast.walk(tree) if isinstance(n, ast.expr) and isinstance(getattr(n, "ctx", ast.Load()), ast.Load) and not isinstance(n, (ast.Name, ast.Constant, ast.Starred))]
        cands = [n for n in cands if _parses_alone(src, n, starts)]
        if not cands:
            out.notes["no_candidate_expression"] += 1
            return out
        N = cands[case["node"] % len(cands)]
        a, b = _span(N, starts)
        base_text = src[a:b]
        try:
            pnode = ast.parse(base_text, mode="eval").body
        except SyntaxError:
            out.notes["pattern_text_unparsable"] += 1
            return out
        exprs = [n for n in ast.walk(pnode) if isinstance(n, ast.expr) and n is not pnode and isinstance(getattr(n, "ctx", ast.Load()), ast.Load)]
        plines = base_text.split("\n")
    pstarts = [0]
    for ln in plines:
        pstarts.append(pstarts[-1] + len(ln) + 1)
    _LINES[id(pstarts)] = plines
    # pick non-overlapping sub-expressions to abstract
    chosen = []
    for sidx in case["subs"]:
        if not exprs:
            break
        e = exprs[sidx % len(exprs)]
        if isinstance(e, (ast.JoinedStr, ast.FormattedValue, ast.Slice, ast.Starred)) or (isinstance(e, ast.Tuple) and any(isinstance(x, (ast.Slice, ast.Starred)) for x in e.elts)):
            continue  # not expressions that can stand in an argument position
        sa, sb = _span(e, pstarts)
        if any(not (sb <= ca or cb <= sa) for ca, cb, _ in chosen):
            continue
        if base_text[sa:sb].strip() == "" or "\n" in base_text[sa:sb]:
            continue
        chosen.append((sa, sb, e))
    if case["share"] and chosen:
        # make the shared-wildcard case likely: also abstract another occurrence of an already chosen sub-tree
        for sa0, sb0, e0 in list(chosen):
            for e in exprs:
                if e is e0 or isinstance(e, (ast.Slice, ast.Starred)) or ast.dump(e) != ast.dump(e0):
                    continue
                sa, sb = _span(e, pstarts)
                if any(not (sb <= ca or cb <= sa) for ca, cb, _ in chosen) or "\n" in base_text[sa:sb]:
                    continue
                chosen.append((sa, sb, e))
                break
    chosen.sort()
    names = {}
    pattern = base_text
    wildnames = []
    for sa, sb, e in reversed(chosen):
        key = ast.dump(e) if case["share"] else id(e)
        if key not in names:
            names[key] = "w%d" % len(names)
        pattern = pattern[:sa] + "${%s}" % names[key] + pattern[sb:]
    wildnames = sorted(set(names.values()))
    ref_text = pattern
    for w in wildnames:
        ref_text = ref_text.replace("${%s}" % w, WILD % int(w[1:]))
    try:
        if case["stmts"]:
            ref_pat = ast.parse(ref_text).body
        else:
            ref_pat = ast.parse(ref_text, mode="eval").body
    except SyntaxError:
        out.notes["abstracted_pattern_unparsable"] += 1
        return out
    if not isinstance(ref_pat, list) and isinstance(ref_pat, ast.Tuple):
        out.labels["unparenthesised_tuple_pattern"] += 1
        if env.known("tuple_match_replaced_without_its_parentheses"):
            out.excluded["tuple_match_replaced_without_its_parentheses"] += 1
            return out
    if isinstance(ref_pat, list) and any(isinstance(x, ast.Expr) and (ast.get_source_segment(ref_text, x) or "").startswith("(") for x in (ref_pat[0], ref_pat[-1])):
        out.labels["parenthesised_expression_statement_at_match_edge"] += 1
        if env.known("parenthesised_expression_statement_at_match_edge"):
            out.excluded["parenthesised_expression_statement_at_match_edge"] += 1
            return out
    if _is_wild(ref_pat) if not isinstance(ref_pat, list) else False:
        out.notes["pattern_is_a_single_wildcard"] += 1
        return out

    if "\n" in base_text and any("\n" in t for t in _TRIPLE.findall(base_text)):
        out.labels["multiline_string_in_match"] += 1
        if env.known("auto_indent_rewrites_multiline_string"):
            out.excluded["auto_indent_rewrites_multiline_string"] += 1
            return out
    if case["stmts"] and "\t" in src:
        out.labels["tabs_and_statement_pattern"] += 1
        if env.known("auto_indent_with_tab_indentation"):
            out.excluded["auto_indent_with_tab_indentation"] += 1
            return out

    # ---- region aligned with top-level statement boundaries
    start, end = 0, len(src)
    if case["region"] and tree.body:
        i = case["region"][0] % len(tree.body)
        j = i + case["region"][1] % (len(tree.body) - i)
        start = starts[tree.body[i].lineno - 1]
        end = starts[tree.body[j].end_lineno - 1] + len(lines[tree.body[j].end_lineno - 1])
        start = min(start, starts[min(d.lineno for d in getattr(tree.body[i], "decorator_list", []) or [tree.body[i]]) - 1])

    # ---- reference instances
    ref = []
    spans_all = []
    if case["stmts"]:
        k = len(ref_pat)
        for sl in _stmt_lists(tree):
            for i in range(0, len(sl) - k + 1):
                envm = {}
                if rmatch(ref_pat, sl[i: i + k], envm):
                    sa = _span(sl[i], starts)[0]
                    sb = _span(sl[i + k - 1], starts)[1]
                    decos = getattr(sl[i], "decorator_list", None)
                    if decos:
                        sa = min(sa, src.rfind("@", 0, min(_span(d, starts)[0] for d in decos)))
                    if start <= sa and sb <= end:
                        ref.append((sl[i].lineno, sl[i].col_offset, envm))
                    spans_all.append((sa, sb))
    else:
        for n in ast.walk(tree):
            if isinstance(n, ast.expr):
                envm = {}
                if rmatch(ref_pat, n, envm):
                    sa, sb = _span(n, starts)
                    if start <= sa and sb <= end:
                        ref.append((n.lineno, n.col_offset, envm))
                    spans_all.append((sa, sb))
    if any("\n" in t for (sa_, sb_) in spans_all for t in _TRIPLE.findall(src[sa_:sb_]) if "\n" in src[sa_:sb_]):
        out.labels["multiline_string_in_match"] += 1
        if env.known("auto_indent_rewrites_multiline_string"):
            out.excluded["auto_indent_rewrites_multiline_string"] += 1
            return out
    if re.search(r"\}\s*\$\{", pattern):
        out.notes["adjacent_wildcards_skipped"] += 1
        return out
    # the re-indentation hazard concerns every instance, not only the node the pattern was derived from
    for n_ in ast.walk(tree):
        if isinstance(n_, (ast.expr, ast.stmt)) and getattr(n_, "end_lineno", 0) > getattr(n_, "lineno", 0):
            sa_, sb_ = _span(n_, starts)
            if any("\n" in t for t in _TRIPLE.findall(src[sa_:sb_])):
                envm_ = {}
                hit = (not isinstance(ref_pat, list) and isinstance(n_, ast.expr) and rmatch(ref_pat, n_, envm_))
                if hit:
                    out.labels["multiline_string_in_match"] += 1
                    if env.known("auto_indent_rewrites_multiline_string"):
                        out.excluded["auto_indent_rewrites_multiline_string"] += 1
                        return out
    # precedence hazard (recorded finding): a wildcard standing in an operand-like position of the pattern that some
    # instance binds to a compound expression - the bound text is re-inserted without parentheses, also for goal == pattern
    unsafe = set()

    def ctx_walk(node, parent, field):
        if _is_wild(node):
            safe = (
                (isinstance(parent, ast.Call) and field in ("args",))
                or isinstance(parent, ast.keyword)
                or (isinstance(parent, (ast.List, ast.Tuple, ast.Set)) and field == "elts")
                or (isinstance(parent, ast.Dict))
                or (isinstance(parent, ast.Subscript) and field == "slice")
                or isinstance(parent, (ast.Assign, ast.Return, ast.Expr, ast.AugAssign, ast.AnnAssign))
                or parent is None
            )
            if not safe:
                unsafe.add(node.id)
            return
        for f_, v_ in ast.iter_fields(node):
            if isinstance(v_, ast.AST):
                ctx_walk(v_, node, f_)
            elif isinstance(v_, list):
                for x_ in v_:
                    if isinstance(x_, ast.AST):
                        ctx_walk(x_, node, f_)

    for p_ in (ref_pat if isinstance(ref_pat, list) else [ref_pat]):
        ctx_walk(p_, None, None)
    if True:
        atomic = (ast.Name, ast.Constant, ast.Call, ast.Attribute, ast.Subscript, ast.List, ast.Dict, ast.Set, ast.ListComp, ast.SetComp, ast.DictComp, ast.JoinedStr)
        compound = False
        for n_ in ast.walk(tree):
            if isinstance(n_, ast.expr) and not isinstance(ref_pat, list):
                e_ = {}
                if rmatch(ref_pat, n_, e_) and any(k in unsafe and not isinstance(v, atomic) for k, v in e_.items()):
                    compound = True
                if e_ and any(isinstance(v, (ast.GeneratorExp, ast.Tuple)) for v in e_.values()):
                    compound = True  # a sole generator argument loses its implicit parentheses
        if isinstance(ref_pat, list):
            for sl_ in _stmt_lists(tree):
                for i_ in range(0, len(sl_) - len(ref_pat) + 1):
                    e_ = {}
                    if rmatch(ref_pat, sl_[i_: i_ + len(ref_pat)], e_) and any(k in unsafe and not isinstance(v, atomic) for k, v in e_.items()):
                        compound = True
        if compound:
            out.labels["compound_binding_in_operand_position"] += 1
            if env.known("bound_code_inserted_without_parentheses"):
                out.excluded["bound_code_inserted_without_parentheses"] += 1
                return out
    root = core.fresh_dir("c19")
    project = Project(root, ropefolder=None)
    try:
        with open(root + "/mod.py", "w", newline="") as fh:
            fh.write(src)
        res = project.get_file("mod.py")
        out.evals += 1
        sub = {"pattern": pattern, "region": [start, end]}
        try:
            pymodule = project.get_pymodule(res)
            finder = similarfinder.SimilarFinder(pymodule)
            matches = list(finder.get_matches(pattern, {}, start, end))
        except rex.RopeError as e:
            out.refused += 1
            out.labels["refused:" + type(e).__name__] += 1
            return out
        except RecursionError:
            out.notes["recursion"] += 1
            return out
        except Exception as e:
            out.violation("C19:get_matches_raised:%s" % type(e).__name__, "%r for pattern %r" % (e, pattern), sub)
            return out
        got = []
        for m in matches:
            node = m.ast if hasattr(m, "ast") else m.ast_list[0]
            got.append((node.lineno, node.col_offset))
        want = [(x[0], x[1]) for x in ref]
        kind = "stmts" if case["stmts"] else "expr"
        if sorted(set(got)) != sorted(set(want)):
            miss = sorted(set(want) - set(got))
            extra = sorted(set(got) - set(want))
            out.violation(
                "C19:match_set:%s:%s" % (kind, ("missing" if miss else "") + ("extra" if extra else "")),
                "pattern %r region %s: not reported %s, reported but no instance %s" % (pattern, (start, end), miss[:4], extra[:4]),
                sub,
            )
            return out
        # (2) per match
        for m in matches:
            ms, me = m.get_region()
            if not (start <= ms and me <= end):
                out.violation("C19:match_outside_region:%s" % kind, "%s not in %s" % ((ms, me), (start, end)), sub)
                return out
            for w in wildnames:
                bn = m.get_ast(w)
                if bn is None:
                    out.violation("C19:wildcard_unbound:%s" % kind, "%s in %r" % (w, pattern), sub)
                    return out
                bs, be = bn.region
                if not (ms <= bs and be <= me):
                    out.violation("C19:binding_outside_match:%s" % kind, "%s %s not in %s" % (w, (bs, be), (ms, me)), sub)
                    return out
            if not case["stmts"] and not any(isinstance(m.get_ast(w), (ast.Slice, ast.Starred)) or (isinstance(m.get_ast(w), ast.Tuple) and any(isinstance(x, (ast.Slice, ast.Starred)) for x in m.get_ast(w).elts)) for w in wildnames):
                text = pattern
                for w in wildnames:
                    bs, be = m.get_ast(w).region
                    text = text.replace("${%s}" % w, "(" + src[bs:be] + ")")
                try:
                    again = ast.parse("(" + text + ")", mode="eval").body
                    if not _eq(again, m.ast):
                        out.violation("C19:substitution_is_not_the_match:%s" % kind, "%r does not parse to the matched node" % text[:120], sub)
                        return out
                except SyntaxError:
                    out.violation("C19:substitution_unparsable:%s" % kind, repr(text[:120]), sub)
                    return out
        nontriv = len(ref) >= 2 or any(not isinstance(v, (ast.Name, ast.Constant)) for x in ref for v in x[2].values())

        # (3)/(4) restructuring over the whole module
        def _argument_like(node):
            if isinstance(node, (ast.Slice, ast.Starred, ast.GeneratorExp)):
                return False
            if isinstance(node, ast.Tuple) and any(isinstance(x, (ast.Slice, ast.Starred)) for x in node.elts):
                return False
            return True

        # a goal that turns a match into a call is only meaningful if every instance is a value (not an assignment
        # target) and every binding can stand in an argument position
        all_inst = []
        for n_ in ast.walk(tree):
            if isinstance(n_, ast.expr) and not case["stmts"]:
                e_ = {}
                if rmatch(ref_pat, n_, e_):
                    all_inst.append((n_, e_))
        goal_ok = all(isinstance(getattr(n_, "ctx", ast.Load()), ast.Load) and all(_argument_like(v) for v in e_.values()) for n_, e_ in all_inst)
        import re as _re

        if _re.search(r"\(\s*\$\{", pattern) and any(
            isinstance(v, ast.Slice) or (isinstance(v, ast.Tuple) and any(isinstance(e2, ast.Slice) for e2 in v.elts)) for _n, e_ in all_inst for v in e_.values()
        ):
            # the pattern's own text puts parentheses around a wildcard, and some instance binds that wildcard to a slice
            # (a[1:2] is an instance of a[((${w}))] as a tree): no text can put a slice back inside parentheses, so
            # "the goal written like the pattern changes nothing" cannot be asked of this pair
            out.notes["slice_bound_to_a_parenthesised_wildcard"] += 1
            return out
        stmt_goal = bool(case["stmts"]) and isinstance(ref_pat, list) and case["goal"] != "same"
        if stmt_goal:
            # a statement pattern with a goal that differs from it: every chosen window gets a marker statement in front.
            # Windows are chosen left to right without overlap (rope's documented behaviour for overlapping matches)
            goal = "marker_stmt()\n" + pattern
        elif case["goal"] == "same" or not wildnames or case["stmts"] or not goal_ok:
            goal = pattern
        else:
            order = list(reversed(wildnames)) if case["goal"] == "wrap_permuted" else wildnames
            goal = "wrapped_call(%s)" % ", ".join("${%s}" % w for w in order)
            if case["stmts"]:
                goal = goal
        out.evals += 1
        try:
            changes = restructure.Restructure(project, pattern, goal).get_changes()
        except rex.RopeError:
            out.refused += 1
            return out
        except RecursionError:
            out.notes["recursion"] += 1
            return out
        except Exception as e:
            out.violation("C19:restructure_raised:%s" % type(e).__name__, "%r pattern %r goal %r" % (e, pattern, goal), sub)
            return out
        new = src
        for c in changes.changes:
            if c.resource.path == "mod.py":
                new = c.new_contents
        new_tree = None
        try:
            new_tree = ast.parse(new)
        except SyntaxError as e:
            if not stmt_goal:
                out.violation("C19:result_does_not_parse:%s:%s" % (kind, case["goal"]), "%s\npattern %r goal %r" % (e, pattern, goal), sub)
                return out
            parse_error = e  # judged below, once the windows are known (a recorded finding covers one-line suites)
        if stmt_goal:
            want_tree = copy.deepcopy(tree)
            k_ = len(ref_pat)
            nested = False
            one_line_suite = False
            for sl_ in list(_stmt_lists(want_tree)):
                i_ = 0
                chosen = []
                while i_ + k_ <= len(sl_):
                    if rmatch(ref_pat, sl_[i_: i_ + k_], {}):
                        chosen.append(i_)
                        i_ += k_
                    else:
                        i_ += 1
                for i_ in reversed(chosen):
                    ln_ = src.split("\n")[sl_[i_].lineno - 1]
                    if ln_.encode("utf-8")[: sl_[i_].col_offset].strip():
                        one_line_suite = True  # the window stands behind a block header or a ';' on the same line
                    if any(isinstance(x, ast.stmt) and x is not st_ and hasattr(st_, "body") for st_ in sl_[i_: i_ + k_] for x in ast.walk(st_)):
                        nested = True  # the window itself holds statement blocks (matches inside matches): not compared
                    sl_.insert(i_, ast.Expr(value=ast.Call(func=ast.Name(id="marker_stmt", ctx=ast.Load()), args=[], keywords=[])))
            if one_line_suite:
                # input feature of a recorded finding: a multi-line goal for a statement that does not start its line
                out.labels["multiline_goal_for_statement_in_one_line_suite"] += 1
                if env.known("multiline_goal_for_statement_in_one_line_suite"):
                    out.excluded["multiline_goal_for_statement_in_one_line_suite"] += 1
                    return out
            if new_tree is None:
                out.violation("C19:result_does_not_parse:%s:%s" % (kind, case["goal"]), "%s\npattern %r goal %r" % (parse_error, pattern, goal), sub)
                return out
            if not nested and not _eq(new_tree, want_tree):
                out.violation("C19:statement_goal_substitution", "pattern %r goal %r\nexpected %s\ngot      %s" % (pattern, goal, ast.unparse(want_tree)[:400], ast.unparse(new_tree)[:400]), sub)
                return out
        elif goal == pattern:
            if not _eq(new_tree, tree):
                out.violation("C19:identity_goal_changed_ast:%s" % kind, "pattern %r" % pattern, sub)
                return out
        elif not case["stmts"]:
            want_tree = _Subst(ref_pat, order).visit(copy.deepcopy(tree))
            if not _eq(new_tree, want_tree):
                out.violation("C19:goal_substitution:%s:%s" % (kind, case["goal"]), "pattern %r goal %r\nexpected %s\ngot      %s" % (pattern, goal, ast.unparse(want_tree)[:300], ast.unparse(new_tree)[:300]), sub)
                return out
        # restructure.replace on the same text
        if not case["stmts"]:
            try:
                rep = restructure.replace(src, pattern, goal)
                rep_tree = ast.parse(rep)
                if goal == pattern and not _eq(rep_tree, tree):
                    out.violation("C19:replace_identity_changed_ast", "pattern %r" % pattern, sub)
                elif goal != pattern and not _eq(rep_tree, new_tree):
                    out.violation("C19:replace_differs_from_restructure", "pattern %r goal %r" % (pattern, goal), sub)
            except rex.RopeError:
                out.refused += 1
            except RecursionError:
                pass
            except Exception as e:
                out.violation("C19:replace_raised:%s" % type(e).__name__, "%r pattern %r goal %r" % (e, pattern, goal), sub)
        if nontriv:
            out.nontrivial.add((pattern, start, end))
        out.labels["kind:" + kind] += 1
        out.labels["goal:" + case["goal"]] += 1
        out.labels["wildcards=%d" % len(wildnames)] += 1
    finally:
        project.close()
        core.rmtree(root)
    return out


def _parses_alone(src, n, starts):
    a, b = _span(n, starts)
    try:
        got = ast.parse(src[a:b], mode="eval").body
    except (SyntaxError, ValueError):
        return False
    return _eq(got, n)


class _Subst(ast.NodeTransformer):
    """reference substitution: bottom-up, every instance becomes wrapped_call(bound...)"""

    def __init__(self, pat, order):
        self.pat = pat
        self.order = order

    def generic_visit(self, node):
        if isinstance(node, ast.expr):
            envm = {}
            if rmatch(self.pat, node, envm):
                args = [self.visit(copy.deepcopy(envm[WILD % int(w[1:])])) for w in self.order]
                return ast.Call(func=ast.Name(id="wrapped_call", ctx=ast.Load()), args=args, keywords=[])
        return super().generic_visit(node)


_TRIPLE = re.compile(r"'''.*?'''|\"\"\".*?\"\"\"", re.S)


def _typed_probe(case, env):
    """wildcard arguments (`type=...`, `unsure`): a typed wildcard matches an expression of that type, an expression of
    unknown type only with `unsure`, and never an expression of another type - for each wildcard on its own terms"""
    from rope.base.project import Project
    from rope.refactor import restructure, similarfinder

    out = core.Outcome()
    root = core.fresh_dir("c19t")
    project = Project(root, ropefolder=None)
    try:
        with open(root + "/mod.py", "w") as fh:
            fh.write(TYPED_SRC)
        res = project.get_file("mod.py")
        args = {}
        for w, idx in (("a", case["a"]), ("b", case["b"])):
            if TYPED_CHECKS[idx]:
                args[w] = TYPED_CHECKS[idx]

        def ok(kind, idx):
            chk = TYPED_CHECKS[idx]
            return chk is None or kind == "Box" or (kind == "?" and chk.endswith("unsure"))

        want = sorted(ln for ln, (ka, kb) in TYPED_TRUTH.items() if ok(ka, case["a"]) and ok(kb, case["b"]))
        out.evals += 1
        sub = {"args": args}
        try:
            r = restructure.Restructure(project, "${a}.merge(${b})", "${a}.absorb(${b})", args=args)
            changes = r.get_changes()
        except Exception as e:
            out.violation("C19:typed_wildcards_raised:%s" % type(e).__name__, "%r with %s" % (e, args), sub)
            return out
        new = TYPED_SRC
        if changes is not None:
            for c in changes.changes:
                if c.resource.path == "mod.py":
                    new = c.new_contents
        got = sorted(i + 1 for i, ln in enumerate(new.split("\n")) if ".absorb(" in ln)
        if got != want:
            out.violation("C19:typed_wildcards", "args %s: rewritten lines %s, instances by type %s" % (args, got, want), sub)
        elif args:
            out.nontrivial.add(("typed", case["a"], case["b"]))
    finally:
        project.close()
        core.rmtree(root)
    return out


def _precedence_probe(case, env):
    """fixed probe kept as the replay of the recorded precedence finding (the campaign's goals avoid it by construction)"""
    from rope.refactor import restructure

    out = core.Outcome()
    out.evals = 1
    got = restructure.replace(case["src"], case["pattern"], case["goal"])
    if not _eq(ast.parse(got), ast.parse(case["expect"])):
        out.violation("C19:precedence", "%r -> %r, meaning-preserving result would be %r" % (case["src"], got, case["expect"]))
    return out
