"""C01 - rename preserves the program: same bindings, same behaviour.

G-PROJ projects; for every binding class (variables, parameters incl. self, functions, classes, methods,
attributes, modules, packages) the first and the last token are used as query (C02 covers every token),
modules additionally by Rename(project, resource).  Oracle: refusal => tree untouched; else every module
compiles, the token streams before/after are equal except that exactly the tokens of the query's
binding class became the fresh name (alpha-equivalence, because the name is fresh), files moved only for
module/package renames, and the program prints the same output.
"""
import io
import os
import tokenize

from hypothesis import strategies as st

from vlib import core, fsmodel, projgen, runner
from props import c02_occurrences as c02

PID = "C01"
LEVEL = "exploration"
TECHNIQUE = "metamorphic + differential testing: rename to a fresh name, compare token streams against the ground-truth binding class and run the program before/after (Hypothesis program generator)"
RULE = (
    "G-PROJ projects x every binding class x {first token, last token} (+ resource-based rename for modules/packages) x fresh "
    "target name; change sets are applied to an in-memory tree by the reference interpreter of change objects and 1 in 8 also "
    "performed on disk (must agree) and undone; non-trivial = accepted rename that rewrote >= 2 tokens or moved a file while "
    "another binding uses the same identifier; distinct by (project hash, binding id, query)"
    "; plus (1 case in 8) a scenario family of several star imports exporting the same names with a behavioural oracle; G-PROJ also has keyword constructor calls, __call__, multi-name global statements, docstrings with adjacent quotes, dedented continuation lines and comparison arguments"
)
ASSUMPTIONS = [
    "programs are int-valued, total and deterministic, so equal stdout + equal exception class is behavioural equality",
    "builtins, dunder names and keywords are not renameable identifiers and are not queried",
]
BUDGET = {"quick": (400, 240), "thorough": (8000, 2700)}


@st.composite
def star_scenarios(draw):
    """shapes G-PROJ does not produce: several `from m import *` whose modules export the same names (the LAST import wins in
    Python), optionally shadowed by a local definition.  Oracle: behaviour only (rename every definition and every use to a
    fresh name; the program must print the same)."""
    names = ["render", "width", "Kind"]
    mods = ["s1", "s2", "s3"][: draw(st.integers(2, 3))]
    files = {}
    for k, m in enumerate(mods):
        text = ""
        for n in names:
            if draw(st.integers(0, 3)) > 0:
                if n == "render":
                    text += "def render(v):\n    return '%s:' + str(v)\n" % m
                elif n == "width":
                    text += "width = %d\n" % (10 * (k + 1))
                else:
                    text += "class Kind:\n    tag = %d\n" % (k + 1)
        files[m + ".py"] = text or "other = 0\n"
    order = draw(st.permutations(mods))
    use = "".join("from %s import *\n" % m for m in order)
    shadow = draw(st.sampled_from([None, None, "render", "width"]))
    if shadow == "render":
        use += "def render(v):\n    return 'local:' + str(v)\n"
    elif shadow == "width":
        use += "width = 7\n"
    defined = {n for m in mods for n in names if ("def %s" % n in files[m + ".py"] or "%s = " % n in files[m + ".py"] or "class %s" % n in files[m + ".py"])} | ({shadow} if shadow else set())
    body = []
    if "render" in defined:
        body.append("print(render(1))")
    if "width" in defined:
        body.append("print(width + 1)")
    if "Kind" in defined:
        body.append("print(Kind.tag, Kind().tag)")
    use += "\n".join(body) + "\n"
    files["use.py"] = use
    files["main.py"] = "import use\n" + "".join("import %s\n" % m for m in mods)
    return {"scenario": "star_imports", "files": files, "entry": "main.py", "names": sorted(defined)}


@st.composite
def hierarchy_scenarios(draw):
    """a method overridden at 2-4 levels of a class chain spread over modules, renamed with in_hierarchy=True from any level:
    every override and every call must follow (dynamic dispatch makes a missed override observable)"""
    depth = draw(st.integers(2, 4))
    names = ["Base", "Mid", "Leaf", "Tip"][:depth]
    files = {}
    for k, cn in enumerate(names):
        imp = "" if k == 0 else "from lv%d import %s\n" % (k - 1, names[k - 1])
        base = "" if k == 0 else "(%s)" % names[k - 1]
        overrides = k == 0 or draw(st.integers(0, 3)) > 0
        body = "    def describe(self):\n        return '<%s>'\n" % cn.lower() if overrides else "    pass\n"
        extra = "    def show(self):\n        return self.describe()\n" if k == 0 else ""
        files["lv%d.py" % k] = imp + "class %s%s:\n%s%s" % (cn, base, body, extra)
    files["main.py"] = "".join("from lv%d import %s\n" % (k, cn) for k, cn in enumerate(names)) + "print(%s)\n" % ", ".join("%s().show(), %s().describe()" % (cn, cn) for cn in names)
    return {"scenario": "hierarchy", "files": files, "entry": "main.py", "names": ["describe"], "in_hierarchy": True}


@st.composite
def kwargs_scenarios(draw):
    """keywords swallowed by **kwargs are dictionary keys, not references to a visible variable of the same name"""
    var = draw(st.sampled_from(["timeout", "retries"]))
    files = {
        "cfg.py": "def make(**options):\n    return sorted(options.items())\n",
        "main.py": "from cfg import make\ntimeout = 30\nretries = 3\nprint(make(%s=%s * 2, other=retries))\nprint(timeout + retries)\n" % (var, var),
    }
    return {"scenario": "kwargs_keyword", "files": files, "entry": "main.py", "names": ["timeout", "retries"]}


SHAPES = {
    # binding shapes G-PROJ does not produce; every occurrence of the listed names is renamed in turn (behavioural oracle)
    "async_method": ("import asyncio\nclass K:\n    async def NAME(self, v):\n        return v + 1\n    async def run(self):\n        return await self.NAME(1)\nprint(asyncio.run(K().run()))\n", ["NAME"]),
    "async_function": ("import asyncio\nasync def NAME(v):\n    return v * 2\nasync def main():\n    return await NAME(4)\nprint(asyncio.run(main()))\n", ["NAME"]),
    "default_reads_outer_name_of_a_local": ("NAME = 5\ndef f(a=NAME):\n    NAME = a + 1\n    return NAME\nprint(f(), NAME)\n", ["NAME"]),
    "class_body_reads_outer_name_it_rebinds": ("NAME = 3\nclass C:\n    NAME = NAME + 1\nprint(C.NAME, NAME)\n", ["NAME"]),
    "multi_line_fstring": ("NAME = 7\ns = f\"\"\"a\n{NAME} b\n{NAME + 1}\"\"\"\nprint(s)\n", ["NAME"]),
    "generator_sole_argument": ("NAME = 100\ntotal = sum(NAME for NAME in range(4))\nprint(total, NAME)\n", ["NAME"]),
    "nonlocal_counter": ("def outer():\n    NAME = 1\n    def bump():\n        nonlocal NAME\n        NAME = NAME + 1\n    bump()\n    return NAME\nprint(outer())\n", ["NAME"]),
    "global_created_in_function": ("def init():\n    global NAME\n    NAME = 1\ninit()\nprint(NAME)\n", ["NAME"]),
    "property_with_setter": ("class Box:\n    def __init__(self):\n        self._s = 1\n    @property\n    def NAME(self):\n        return self._s\n    @NAME.setter\n    def NAME(self, v):\n        self._s = v\nb = Box()\nb.NAME = 4\nprint(b.NAME)\n", ["NAME"]),
    "starred_target": ("first, *NAME = [1, 2, 3]\nprint(first, NAME)\n", ["NAME"]),
    "with_and_except_targets": ("import io\nwith io.StringIO('x') as NAME:\n    print(NAME.read())\ntry:\n    raise ValueError(3)\nexcept ValueError as OTHER:\n    print(OTHER.args)\n", ["NAME", "OTHER"]),
    "for_else_and_walrus": ("for NAME in range(3):\n    pass\nelse:\n    print(NAME)\nif (OTHER := NAME + 1) > 1:\n    print(OTHER)\n", ["NAME", "OTHER"]),
    "lambda_default": ("NAME = 2\ng = lambda v, k=NAME: v * k\nprint(g(3), NAME)\n", ["NAME"]),
    "decorator_and_annotation": ("def NAME(fn):\n    return fn\nOTHER = int\n@NAME\ndef f(v: OTHER) -> OTHER:\n    return v\nprint(f(1), OTHER('2'))\n", ["NAME", "OTHER"]),
    "keyword_only_default": ("NAME = 4\ndef f(*, k=NAME):\n    return k\nprint(f(), NAME)\n", ["NAME"]),
    "dict_and_set_comprehension": ("NAME = [1, 2]\nd = {k: k + 1 for k in NAME}\ns = {k for k in NAME if k}\nprint(sorted(d.items()), sorted(s), NAME)\n", ["NAME"]),
    "conditional_expression_and_chained_compare": ("NAME = 2\nr = NAME if 1 < NAME < 3 else -NAME\nprint(r)\n", ["NAME"]),
    "multi_line_class_header": ("NAME = object\nOTHER = type\nclass C(\n    NAME,\n    metaclass=OTHER,\n):\n    NAME = 3\n    OTHER = 4\nprint(C.NAME, C.OTHER, C.__mro__[1] is NAME, type(C) is OTHER)\n", ["NAME", "OTHER"]),
    "multi_name_global": ("NAME = 0\nOTHER = 0\ndef bump():\n    global NAME, OTHER\n    NAME = NAME + 1\n    OTHER = OTHER + NAME\nbump()\nprint(NAME, OTHER)\n", ["NAME", "OTHER"]),
    "del_and_augmented": ("NAME = 1\nNAME += 2\nprint(NAME)\nOTHER = [1]\ndel OTHER[0]\nprint(OTHER)\n", ["NAME", "OTHER"]),
}


@st.composite
def shape_scenarios(draw):
    key = draw(st.sampled_from(sorted(SHAPES)))
    text, names = SHAPES[key]
    pool = draw(st.permutations(["alpha", "total_count", "_hidden", "Value2"]))
    real = []
    for i, n in enumerate(names):
        text = text.replace(n, pool[i])
        real.append(pool[i])
    wrap = draw(st.sampled_from(["module", "module", "in_function"]))
    if wrap == "in_function" and key != "class_body_reads_outer_name_it_rebinds" and "global " not in text and "import asyncio" not in text and not text.startswith("import io"):
        text = "def scenario():\n" + "".join("    " + ln + "\n" for ln in text.splitlines()) + "scenario()\n"
    return {"scenario": "shape:" + key, "files": {"shape.py": text, "main.py": "import shape\n"}, "entry": "main.py", "names": real}


@st.composite
def namesake_scenarios(draw):
    """a module name that exists at top level AND inside a package: an absolute import from within the package binds the
    top-level module (Python 3), a relative one the sibling"""
    fn = draw(st.sampled_from(["shorten", "clip"]))
    files = {
        "textutil.py": "def %s(s):\n    return s[:2]\nWIDTH = 2\n" % fn,
        "pkg/__init__.py": "",
        "pkg/textutil.py": "def %s(s):\n    return s.upper()\nWIDTH = 9\n" % fn,
        "pkg/report.py": "import textutil\nfrom . import textutil as local\nfrom textutil import WIDTH\ndef show():\n    return textutil.%s('abc') + '|' + local.%s('xyz') + '|' + str(WIDTH + local.WIDTH)\n" % (fn, fn),
        "main.py": "import pkg.report\nimport textutil\nprint(pkg.report.show(), textutil.%s('q'))\n" % fn,
    }
    if draw(st.booleans()):
        files["pkg/sub/__init__.py"] = ""
        files["pkg/sub/deep.py"] = "import textutil\nfrom .. import textutil as up\ndef show():\n    return textutil.%s('abc') + up.%s('k')\n" % (fn, fn)
        files["main.py"] += "import pkg.sub.deep\nprint(pkg.sub.deep.show())\n"
    return {"scenario": "namesake_modules", "files": files, "entry": "main.py", "names": [fn, "WIDTH", "textutil"]}


def strategy(tier):
    return st.one_of(
        namesake_scenarios(),
        shape_scenarios(), shape_scenarios(), shape_scenarios(), shape_scenarios(),
        projgen.projects(), projgen.projects(), projgen.projects(), projgen.projects(), projgen.projects(), projgen.projects(), projgen.projects(),
        projgen.projects(), projgen.projects(), projgen.projects(), projgen.projects(), projgen.projects(), projgen.projects(), projgen.projects(),
        star_scenarios(), hierarchy_scenarios(), kwargs_scenarios(),
    )


def describe(case):
    if case.get("scenario"):
        return {"scenario": case["scenario"], "files": case["files"]}
    return c02.describe(case)


def toks(src):
    out = []
    lines = src.split("\n")
    starts = [0]
    for ln in lines:
        starts.append(starts[-1] + len(ln) + 1)
    for t in tokenize.generate_tokens(io.StringIO(src).readline):
        if t.type in (tokenize.NL, tokenize.NEWLINE, tokenize.INDENT, tokenize.DEDENT, tokenize.ENDMARKER):
            out.append((t.type, "", None))
        else:
            out.append((t.type, t.string, starts[t.start[0] - 1] + t.start[1]))
    return out


def apply_changes(files, changes):
    """reference reading of a rope ChangeSet on {path: text}; returns (new files, moves)"""
    from rope.base import change as ch

    files = dict(files)
    moves = []

    def rec(c):
        if isinstance(c, ch.ChangeSet):
            for x in c.changes:
                rec(x)
        elif isinstance(c, ch.ChangeContents):
            files[c.resource.path] = c.new_contents
        elif isinstance(c, ch.MoveResource):
            src, dst = c.resource.path, c.new_resource.path
            moves.append((src, dst))
            if src in files:
                files[dst] = files.pop(src)
            else:
                for p in list(files):
                    if p.startswith(src + "/"):
                        files[dst + p[len(src):]] = files.pop(p)
        else:
            raise core.HarnessError("unexpected change kind %r" % type(c).__name__)

    rec(changes)
    return files, moves


def map_path(p, moves):
    for src, dst in moves:
        if p == src:
            p = dst
        elif p.startswith(src + "/"):
            p = dst + p[len(src):]
    return p


def _evaluate_scenario(case, env):
    """behavioural oracle over every identifier occurrence of the scenario's names"""
    import re

    from rope.base import exceptions as rex
    from rope.base.project import Project
    from rope.refactor.rename import Rename

    out = core.Outcome()
    files = case["files"]
    base = runner.run(files, case["entry"])
    if base[1]:
        raise core.HarnessError("scenario does not run: %s\n%s" % (base[1], runner.LAST_TB))
    if case["scenario"].startswith("shape:"):
        # a binding shape with a recorded finding: the predicate is the shape itself
        out.labels["hazard:" + case["scenario"]] += 1
        if env.known(case["scenario"]):
            out.excluded[case["scenario"]] += 1
            return out
    root = core.fresh_dir("c01s")
    fsmodel.write_tree(root, files)
    project = Project(root, ropefolder=None)
    try:
        for path in sorted(files):
            for name in case["names"]:
                for m in re.finditer(r"\b%s\b" % name, files[path]):
                    if files[path][: m.start()].rsplit("\n", 1)[-1].lstrip().startswith(("'", "#")) or "'%s" % name in files[path][max(0, m.start() - 1): m.end()]:
                        continue
                    sub = {"path": path, "offset": m.start(), "name": name}
                    out.evals += 1
                    out.labels["scenario:" + case["scenario"]] += 1
                    try:
                        changes = Rename(project, project.get_file(path), m.start()).get_changes(projgen.FRESH, **({"in_hierarchy": True} if case.get("in_hierarchy") else {}))
                    except rex.RopeError:
                        out.refused += 1
                        continue
                    except Exception as e:
                        out.notes["crashed:%s (see C09)" % type(e).__name__] += 1
                        continue
                    new_files, moves = apply_changes(files, changes)
                    bad = runner.compiles(new_files)
                    got = runner.run(new_files, case["entry"]) if not bad else ("", "does not compile")
                    if got != base:
                        from props.c05_move import _show

                        out.violation(
                            "C01:scenario:%s:behaviour%s" % (case["scenario"], ":" + got[1] if got[1] else ""),
                            "rename of %r at %s:%d: output %r/%s -> %r/%s\n%s" % (name, path, m.start(), base[0][-80:], base[1], got[0][-80:], got[1], _show(files, new_files, moves)),
                            sub,
                        )
                        return out
                    if len([p_ for p_ in files if files[p_] != new_files.get(p_)]) >= 2:
                        out.nontrivial.add("s:%s:%d" % (path, m.start()))
    finally:
        project.close()
        core.rmtree(root)
    return out


def evaluate(case, env):
    from rope.base import exceptions as rex
    from rope.refactor.rename import Rename

    if case.get("scenario"):
        return _evaluate_scenario(case, env)
    out = core.Outcome()
    by = c02.class_tokens(case)
    names = {}
    for bid in by:
        names.setdefault(case["classes"].get(bid, {}).get("name"), set()).add(bid)
    base_out = runner.run(case["files"], case["entry"])
    if base_out[1]:
        raise core.HarnessError("generated project does not run: %s\n%s" % (base_out[1], runner.LAST_TB))
    root, project = c02.open_project(case)
    new = projgen.FRESH
    try:
        before_snap = fsmodel.snapshot(root)
        nq = 0
        for bid, ts in sorted(by.items()):
            info = case["classes"].get(bid)
            if info is None:
                continue
            kind = info["kind"]
            if c02.predicate_same_line_comps(case, bid, by) and env.known("same_line_comprehensions"):
                out.excluded["same_line_comprehensions"] += 1
                continue
            if bid in case.get("header_collision_bids", ()) and env.known("class_header_name_collision"):
                out.excluded["class_header_name_collision"] += 1
                continue
            if bid in case.get("subclass_write_bids", ()) and env.known("attribute_written_through_self_in_subclass"):
                out.excluded["attribute_written_through_self_in_subclass"] += 1
                continue
            if kind in ("modalias", "alias") and env.known("module_alias_is_the_module"):
                out.excluded["module_alias_is_the_module"] += 1
                continue
            queries = [("first", ts[0])]
            if len(ts) > 1:
                queries.append(("last", ts[-1]))
            if kind in ("module", "package"):
                queries.append(("resource", None))
            for qname, q in queries:
                nq += 1
                sub = {"bid": bid, "query": qname}
                out.evals += 1
                try:
                    if q is None:
                        res = project.get_resource(info["file"] if kind == "module" else "pkg")
                        changes = Rename(project, res).get_changes(new)
                    else:
                        changes = Rename(project, project.get_file(q[0]), q[1]).get_changes(new)
                except rex.RopeError as e:
                    out.refused += 1
                    out.labels["refused:" + kind] += 1
                    if fsmodel.snapshot(root) != before_snap:
                        out.violation("C01:refusal_changed_tree", repr(e), sub)
                    continue
                except Exception as e:
                    out.notes["crashed:%s (see C09)" % type(e).__name__] += 1
                    out.violation("C01:internal_error:%s:%s" % (type(e).__name__, kind), "%s query on %s %r: %r" % (qname, kind, info["name"], e), sub)
                    continue
                new_files, moves = apply_changes(case["files"], changes)
                where = "%s query on %s %r (%s)" % (qname, kind, info["name"], q[0] + ":" + str(q[1]) if q else info["file"])
                # (b) compile
                bad = runner.compiles(new_files)
                if bad:
                    out.violation("C01:does_not_compile:%s" % kind, "%s: %s" % (where, bad[0]), sub)
                    continue
                # files moved only for module / package renames
                if moves and kind not in ("module", "package"):
                    out.violation("C01:unexpected_move:%s" % kind, "%s moved %s" % (where, moves), sub)
                    continue
                if kind in ("module", "package") and not moves:
                    out.violation("C01:module_not_moved:%s" % kind, where, sub)
                    continue
                # (c) exact binding preservation on the token level
                want = {(t[0], t[1]) for t in ts}
                got = set()
                problem = None
                for p, s in case["files"].items():
                    np_ = map_path(p, moves)
                    if np_ not in new_files:
                        problem = "file %s disappeared" % p
                        break
                    a, b = toks(s), toks(new_files[np_])
                    if len(a) != len(b):
                        problem = "token count of %s changed (%d -> %d)" % (p, len(a), len(b))
                        break
                    for x, y in zip(a, b):
                        if x[0] == y[0] and x[1] == y[1]:
                            continue
                        if x[0] == tokenize.NAME and y[0] == tokenize.NAME and x[1] == info["name"] and y[1] == new:
                            got.add((p, x[2]))
                            continue
                        problem = "token %r became %r in %s" % (x[1], y[1], p)
                        break
                    if problem:
                        break
                if problem is None and set(map_path(p, moves) for p in case["files"]) != set(new_files):
                    problem = "file set differs: %s" % sorted(set(new_files) ^ set(map_path(p, moves) for p in case["files"]))
                if problem:
                    out.violation("C01:text_damage:%s" % kind, "%s: %s" % (where, problem), sub)
                    continue
                if got != want:
                    miss, extra = sorted(want - got), sorted(got - want)
                    out.violation(
                        "C01:%s:%s" % (("under_renamed" if miss else "") + ("over_renamed" if extra else ""), kind),
                        "%s: not renamed %s, wrongly renamed %s" % (where, c02._show(case, [(p, (o, o)) for p, o in miss]), c02._show(case, [(p, (o, o)) for p, o in extra])),
                        sub,
                    )
                    continue
                # (d) behaviour
                res = runner.run(new_files, case["entry"])
                if res != base_out:
                    out.violation("C01:behaviour:%s" % kind, "%s: output/exception %r -> %r" % (where, (base_out[0][-80:], base_out[1]), (res[0][-80:], res[1])), sub)
                    continue
                # (e) performing on disk agrees with the reference reading and undo restores the tree
                if nq % 8 == 0:
                    project.do(changes)
                    disk = {p: v.decode("utf-8") for p, v in fsmodel.snapshot(root).items() if not p.endswith("/")}
                    if {p: v for p, v in disk.items()} != new_files:
                        out.violation("C01:disk_differs_from_changes:%s" % kind, where, sub)
                    project.history.undo()
                    if fsmodel.snapshot(root) != before_snap:
                        out.violation("C01:undo_after_rename:%s" % kind, where, sub)
                        break
                if (len(ts) >= 2 or moves) and len(names.get(info["name"], ())) > 1:
                    out.nontrivial.add((bid, qname))
                out.labels["renamed:" + kind] += 1
    finally:
        project.close()
        core.rmtree(root)
    return out
