"""C13 - a long-lived project answers like a freshly opened one.

Case = initial tree + list of abstract operations interpreted on one long-lived Project:
  through rope : create file / folder / package, write, move, remove, perform a Rename change set, undo, redo
  behind its back (os / shutil, mtime from a strictly increasing counter) followed by project.validate()
  queries that warm caches: file lists, find_module, module source, attribute keys, definition locations,
           attribute sets of the objects names refer to, find_occurrences, and (one case in three) the auto-import index
Oracle after every mutation: observe(long-lived project) == observe(Project(same directory)), where observe is the
plain-data image of all those queries; the auto-import index is compared with one built from scratch on a copy of the tree.
"""
import os
import shutil

from hypothesis import strategies as st

from vlib import core, fsmodel

PID = "C13"
LEVEL = "exploration"
TECHNIQUE = "model-free differential state testing: op sequences on a long-lived project compared, after every mutation, with a freshly opened project on the same directory (Hypothesis op lists)"
RULE = (
    "tree of 6-8 modules in two packages importing each other (+ a non-Python file); 6-16 ops from rope-side mutations (create/write/"
    "move/remove/rename-refactoring/undo/redo/renaming a file into or out of being a module), outside mutations + validate() (incl. "
    "edits that leave an OLDER mtime), and cache-warming queries, with targets biased towards what was touched last and three short "
    "motifs; the full observation (file lists, find_module, per module source / names / definitions / attribute sets / occurrences, "
    "and on one case in three the auto-import index) is compared with a fresh project after every mutation; non-trivial = history "
    "in which a query touched a module before that module or one it imports was mutated, and which contains an outside change; "
    "distinct by op list"
)
ASSUMPTIONS = [
    "outside edits change the (mtime, size) pair rope remembers (mtimes come from two counters: later than, or earlier than, every file of the tree)",
    "after an outside change the documented protocol is followed: project.validate(project.root)",
    "the fresh auto-import index is built on a byte-identical COPY of the tree (in-memory indexes are shared per project path); ProcessPoolExecutor is replaced by an inline executor inside the forked workers",
]
BUDGET = {"quick": (2400, 300), "thorough": (40000, 3000)}

TEXTS = [
    "x = 1\n",
    "y = 2\nz = 3\n",
    "def f():\n    return 1\n",
    "class C:\n    v = 2\n    def m(self):\n        self.w = 3\n        return self.w\n",
    "import a\nq = a.x\n",
    "from a import x\nr = x\n",
    "import pk.m\ns = pk.m\n",
    "from pk import m\nt = m\n",
    "import b\no = b.C()\n",
    "from b import C\nclass D(C):\n    u = 1\nd = D()\n",
    "x = 5\ndef g(p):\n    return p + x\n",
    "def broken(:\n",
    "import pq.n\nv = pq.n\nw = pq\n",
    "from pq import n\nk = n\n",
    "import pk.deep.leaf\nlf = pk.deep.leaf.f1\nlg = pk.deep.leaf\n",
    "import os\n_hidden = 1\n",
    "",
    "from a import *\nst = 0\n",
    "from pq.n import *\nfrom pk.m import *\n",
]
NAMES = ["a", "b", "c", "d", "e"]


def _text_for(path, idx):
    """TEXTS[idx], except that a module is never made to star-import itself (a degenerate cycle whose resolution depends on
    which module happens to be analysed first - not a cache question)"""
    text = TEXTS[idx % len(TEXTS)]
    me = path[:-3].replace("/", ".") if path.endswith(".py") else None
    if "import *" in text and me and ("from %s import *" % me) in text:
        return TEXTS[0]
    return text


@st.composite
def cases(draw):
    tree = {"a.py": TEXTS[0], "b.py": TEXTS[3], "c.py": TEXTS[4], "pk/": None, "pk/__init__.py": "", "pk/m.py": TEXTS[2], "spare.txt": TEXTS[0],
            # a second package, imported by e.py: files move between two packages that are both cached
            "pq/": None, "pq/__init__.py": "", "pq/n.py": TEXTS[1], "e.py": TEXTS[12],
            # a package nested two levels deep, reached through the dotted chain pk.deep.leaf
            "pk/deep/": None, "pk/deep/__init__.py": "", "pk/deep/leaf.py": "def f1():\n    return 1\n", "g.py": TEXTS[14],
            # a module whose name merely starts with a package's name
            "pkx.py": "yy = 1\ndef f_x():\n    return 2\n"}
    if draw(st.booleans()):
        tree["d.py"] = draw(st.sampled_from(TEXTS[:11]))
    n = draw(st.integers(6, 16))
    ops = []
    autoimport = draw(st.integers(0, 2)) == 0
    for _ in range(n):
        r = draw(st.integers(0, 24))
        if autoimport and 12 <= r <= 18 and r != 17 and draw(st.integers(0, 5)) > 0:
            # the auto-import index is only compared up to the first outside change (recorded finding): mostly rope-side histories
            r = {12: 4, 13: 5, 14: 6, 15: 8, 16: 7, 18: 9}[r]
        a, b = draw(st.integers(0, 30)), draw(st.integers(0, 30))
        f = draw(st.sampled_from([0, 0, 1, 1, 2]))
        if r <= 3:
            ops.append(["query", a])
        elif r <= 5:
            ops.append(["write", a, b, f])
        elif r == 6:
            ops.append(["create", a, b, f])
        elif r == 7:
            ops.append(["move", a, b, f])
        elif r == 8:
            ops.append(["remove", a, 0, f])
        elif r == 9:
            ops.append(["rename_refactoring", a, 0, f])
        elif r == 10:
            ops.append(["undo"])
        elif r == 11:
            ops.append(["redo"])
        elif r <= 13:
            ops.append(["ext_write", a, b, f])
        elif r == 14:
            ops.append(["ext_create", a, b, f])
        elif r == 15:
            ops.append(["ext_remove", a, 0, f])
        elif r == 16:
            ops.append(["ext_move", a, b, f])
        elif r == 17:
            ops.append(["mkpackage", a])
        elif r == 18:
            ops.append(["ext_rmtree", a, 0, f])
        elif r == 22:
            # a file that is not a Python file becomes one (settings.py.dist -> settings.py) or the other way round, through rope
            ops.append(["retype", a, b])
        elif r == 23:
            # an outside edit that leaves the file OLDER than rope remembers it (a backup restored with its timestamps)
            ops.append(["ext_write_older", a, b, f])
        elif r == 24:
            # motif: the module c.py imports disappears, c.py is looked at, then a non-Python file is renamed into its place
            ops.append(["remove", 0, 0, 0])
            ops.append(["query", 0])
            ops.append(["retype", 0, 0])
        elif r == 20:
            # motif: move a file, re-create its old path from outside, look at it, undo the move onto it
            ops.append(["move", a, b, 0])
            ops.append(["ext_create", a, b, 2])
            ops.append(["query", 1])
            ops.append(["undo"])
        elif r == 21:
            # motif: look, change a file, remove it while it is still watched, move the folder it was in
            ops.append(["query", 1])
            ops.append(["write", a, 11 if f else b, 0])
            ops.append(["remove", a, 0, 1])
            ops.append(["move", a, b, 2])
        else:
            # motif: warm the caches, move something through rope, change it from outside at its new place, undo the move
            ops.append(["query", 1])
            ops.append(["move", a, b, 3 if f else 0])
            ops.append(["ext_write_moved", b])
            ops.append(["undo"])
    return {"tree": tree, "ops": ops, "autoimport": autoimport}


def strategy(tier):
    return cases()


def describe(case):
    return {"tree": sorted(case["tree"]), "ops": case["ops"]}


def _safe(fn):
    from rope.base import exceptions as rex

    try:
        return fn()
    except rex.RopeError as e:
        return "RopeError:" + type(e).__name__
    except RecursionError:
        return "RecursionError"


def observe(project, root, which=None):
    """plain-data image of the queries (which = subset selector for cache-warming queries)"""
    from rope.contrib import findit

    obs = {}
    files = _safe(lambda: sorted(r.path for r in project.get_files()))
    obs["files"] = files
    obs["pyfiles"] = _safe(lambda: sorted(r.path for r in project.get_python_files()))
    mods = {}
    for name in NAMES + ["pk", "pk.m", "pk.n", "pq", "pq.n", "pq.m", "sub", "sub.a", "zz"]:
        def fm(name=name):
            r = project.find_module(name)
            return r.path if r is not None else None
        mods[name] = _safe(fm)
    obs["find_module"] = mods
    per = {}
    for path in (files if isinstance(files, list) else []):
        if not path.endswith(".py"):
            continue
        if which is not None and (hash(path) + which) % 3 == 0:
            continue

        def one(path=path):
            res = project.get_resource(path)
            pm = project.get_pymodule(res)
            attrs = pm.get_attributes()
            out = {"source": pm.source_code, "attrs": sorted(attrs)}
            defs = {}
            objs = {}
            for n in sorted(attrs):
                pn = attrs[n]

                def loc(pn=pn):
                    m, line = pn.get_definition_location()
                    r = m.get_resource() if m is not None else None
                    return [r.path if r is not None else None, line]

                defs[n] = _safe(loc)

                def oattrs(pn=pn):
                    o = pn.get_object()
                    return sorted(o.get_attributes()) if o is not None else None

                objs[n] = _safe(oattrs)
            out["defs"] = defs
            out["object_attrs"] = objs
            # the module's global scope (what name lookups, completion and occurrence search go through)
            import builtins as _b

            out["scope_names"] = _safe(lambda: sorted(n for n in pm.get_scope().get_names() if not hasattr(_b, n)))
            src = pm.source_code
            # occurrences of the first identifier-looking global
            if attrs:
                first = sorted(attrs)[0]
                off = src.find(first)
                if off >= 0:
                    out["occurrences"] = _safe(lambda: sorted((l.resource.path, list(l.region)) for l in findit.find_occurrences(project, res, off)))
            return out

        per[path] = _safe(one)
    obs["modules"] = per
    return obs


class _InlineExecutor:
    """stand-in for ProcessPoolExecutor inside the forked campaign workers: runs the job in place"""

    def __init__(self, *a, **k):
        pass

    def __enter__(self):
        return self

    def __exit__(self, *a):
        return False

    def submit(self, fn, *a, **k):
        from concurrent.futures import Future

        f = Future()
        try:
            f.set_result(fn(*a, **k))
        except BaseException as e:  # delivered to the caller through the future, as a pool would
            f.set_exception(e)
        return f


def _autoimport_image(ai):
    names = sorted({r[0] for r in ai.get_all_names()})
    return [[n, sorted(ai.get_modules(n))] for n in names]


def _fresh_autoimport_image(root):
    """index built from scratch on a copy of the tree (a copy, because in-memory indexes are shared per project path)"""
    from rope.base.project import Project
    from rope.contrib.autoimport.sqlite import AutoImport

    copy = core.fresh_dir("c13ai")
    try:
        fsmodel.write_tree(copy, fsmodel.snapshot(root))
        p = Project(copy, ropefolder=None, ignored_resources=["*.txt"])
        try:
            ai = AutoImport(p, observe=False, memory=True)
            try:
                ai.generate_cache()
                return _autoimport_image(ai)
            finally:
                ai.close()
        finally:
            p.close()
    finally:
        core.rmtree(copy)


def evaluate(case, env):
    from rope.base import exceptions as rex
    from rope.base import libutils
    from rope.base.project import Project
    from rope.contrib import generate
    from rope.refactor.rename import Rename

    out = core.Outcome()
    root = core.fresh_dir("c13")
    fsmodel.write_tree(root, case["tree"])
    clock = [2_000_000_000]
    old_clock = [1_000_000_000]  # timestamps in the past (before every file of the tree), still all different

    def tick(path):
        clock[0] += 5
        os.utime(path, (clock[0], clock[0]))

    project = Project(root, ropefolder=None, ignored_resources=["*.txt"])
    ai = None
    if case.get("autoimport"):
        import rope.contrib.autoimport.sqlite as aisql

        aisql.ProcessPoolExecutor = _InlineExecutor
        ai = aisql.AutoImport(project, observe=True, memory=True)
        ai.clear_cache()
        ai.generate_cache()
    feats = set()
    queried = False
    last_moved = None
    ai_on = True
    focus = [None, None]  # last touched path, source path of the last move

    def pick(cands, idx, op):
        """target of an op: by index, or (selector 1) the path touched last, or (selector 2) its parent folder"""
        sel = op[3] if len(op) > 3 else 0
        if sel == 1 and focus[0] in cands:
            return focus[0]
        if sel == 2 and focus[0] and os.path.dirname(focus[0]) in cands:
            return os.path.dirname(focus[0])
        if sel == 3:
            return cands[-1]  # a folder when there is one (folders are listed after the files)
        return cands[idx % len(cands)]

    def new_file_place(op, dirs, k):
        """(parent, name) of a file to create: by index, or (selector 2) where the last moved resource came from"""
        sel = op[3] if len(op) > 3 else 0
        if sel == 2 and focus[1] and focus[1].endswith(".py") and os.path.dirname(focus[1]) in [""] + dirs:
            return os.path.dirname(focus[1]), os.path.basename(focus[1])
        if sel == 1 and focus[0] and os.path.dirname(focus[0]) in [""] + dirs:
            return os.path.dirname(focus[0]), NAMES[k % len(NAMES)] + ".py"
        return ([""] + dirs)[op[1] % (len(dirs) + 1)], NAMES[k % len(NAMES)] + ".py"
    try:
        step = 0
        for op in case["ops"]:
            step += 1
            kind = op[0]
            sub = {"step": step, "op": op}
            files = sorted(p for p in fsmodel.snapshot(root) if not p.endswith("/"))
            dirs = sorted(p[:-1] for p in fsmodel.snapshot(root) if p.endswith("/"))
            pyfiles = [p for p in files if p.endswith(".py")]
            mutated = True
            moved_dir = False
            try:
                if kind == "query":
                    observe(project, root, which=op[1])
                    queried = True
                    mutated = False
                elif kind == "write" and pyfiles:
                    p = pick(pyfiles, op[1], op)
                    project.get_resource(p).write(_text_for(p, op[2]))
                    focus[0] = p
                elif kind == "create":
                    parent, name = new_file_place(op, dirs, op[2])
                    folder = project.get_resource(parent) if parent else project.root
                    if not folder.has_child(name):
                        folder.create_file(name).write(TEXTS[(op[1] + op[2]) % 11])
                        focus[0] = os.path.join(parent, name)
                    else:
                        mutated = False
                elif kind == "mkpackage":
                    name = ["sub", "pk2"][op[1] % 2]
                    if name not in dirs and name + ".py" not in files:
                        generate.create_package(project, name)
                    else:
                        mutated = False
                elif kind == "move" and files:
                    p = pick(files + dirs, op[1], op)
                    dest_dir = ([""] + dirs)[op[2] % (len(dirs) + 1)]
                    res = project.get_resource(p)
                    moved_dir = p in dirs
                    newname = os.path.basename(p)
                    target = (dest_dir + "/" + newname) if dest_dir else newname
                    if target == p or os.path.exists(os.path.join(root, target)) or (dest_dir + "/").startswith(p + "/"):
                        # rename in place instead
                        base, ext = os.path.splitext(os.path.basename(p))
                        target = os.path.join(os.path.dirname(p), NAMES[op[2] % len(NAMES)] + "_r" + ext).lstrip("/")
                        if os.path.exists(os.path.join(root, target)):
                            mutated = False
                    if mutated:
                        res.move(target)
                        last_moved = target
                        focus[:] = [target, p]
                elif kind == "remove" and files:
                    p = pick(files + dirs, op[1], op)
                    moved_dir = p in dirs
                    project.get_resource(p).remove()
                    focus[0] = p
                    feats.add("rope_remove")
                elif kind == "rename_refactoring" and pyfiles:
                    p = pick(pyfiles, op[1], op)
                    focus[0] = p
                    res = project.get_resource(p)
                    src = res.read()
                    import re

                    m = re.search(r"[A-Za-z_]\w*", src)
                    if m and m.group() not in ("import", "from", "def", "class"):
                        try:
                            project.do(Rename(project, res, m.start()).get_changes("rn%d" % step))
                            feats.add("refactoring")
                        except rex.RopeError:
                            mutated = False
                    else:
                        mutated = False
                elif kind == "undo":
                    if project.history.undo_list:
                        try:
                            project.history.undo()
                            feats.add("undo")
                        except NotImplementedError:
                            out.notes["undo_of_remove_not_implemented"] += 1
                            break
                        except (rex.RopeError, OSError):
                            # the history no longer fits the tree after external changes: a refusal
                            out.refused += 1
                    else:
                        mutated = False
                elif kind == "redo":
                    if project.history.redo_list:
                        try:
                            project.history.redo()
                        except (rex.RopeError, OSError):
                            out.refused += 1
                    else:
                        mutated = False
                elif kind == "ext_write" and pyfiles:
                    p = pick(pyfiles, op[1], op)
                    focus[0] = p
                    with open(os.path.join(root, p), "w") as f:
                        f.write(_text_for(p, op[2]))
                    tick(os.path.join(root, p))
                    project.validate(project.root)
                    feats.add("external")
                elif kind == "retype":
                    txts = [p for p in files if p.endswith(".txt")]
                    if txts and op[1] % 3:
                        p = txts[op[1] % len(txts)]
                        target = os.path.join(os.path.dirname(p), NAMES[op[2] % len(NAMES)] + ".py").lstrip("/")
                    elif pyfiles:
                        p = pyfiles[op[1] % len(pyfiles)]
                        target = p[:-3] + ".txt"
                    else:
                        p = target = None
                    if p and not os.path.exists(os.path.join(root, target)):
                        project.get_resource(p).move(target)
                        focus[:] = [target, p]
                        feats.add("retype")
                    else:
                        mutated = False
                elif kind == "ext_write_older" and pyfiles:
                    p = pick(pyfiles, op[1], op)
                    focus[0] = p
                    with open(os.path.join(root, p), "w") as f:
                        f.write(_text_for(p, op[2]))
                    old_clock[0] += 5
                    os.utime(os.path.join(root, p), (old_clock[0], old_clock[0]))
                    project.validate(project.root)
                    feats.add("external")
                    feats.add("external_older_mtime")
                elif kind == "ext_write_moved":
                    cands = [p for p in pyfiles if last_moved is not None and (p == last_moved or p.startswith(last_moved + "/"))]
                    if cands:
                        p = cands[op[1] % len(cands)]
                        with open(os.path.join(root, p), "w") as f:
                            f.write(TEXTS[op[1] % 11])
                        tick(os.path.join(root, p))
                        project.validate(project.root)
                        feats.add("external")
                        feats.add("ext_write_moved")
                    else:
                        mutated = False
                elif kind == "ext_create":
                    parent, name = new_file_place(op, dirs, op[2])
                    fp = os.path.join(root, parent, name)
                    if not os.path.exists(fp):
                        focus[0] = os.path.join(parent, name)
                        with open(fp, "w") as f:
                            f.write(TEXTS[(op[1] * 3 + op[2]) % 11])
                        tick(fp)
                        project.validate(project.root)
                        feats.add("external")
                    else:
                        mutated = False
                elif kind == "ext_remove" and files:
                    p = pick(files, op[1], op)
                    focus[0] = p
                    os.remove(os.path.join(root, p))
                    project.validate(project.root)
                    feats.add("external")
                elif kind == "ext_move" and files:
                    p = pick(files, op[1], op)
                    target = os.path.join(os.path.dirname(p), NAMES[op[2] % len(NAMES)] + "_x.py").lstrip("/")
                    if not os.path.exists(os.path.join(root, target)):
                        focus[:] = [target, p]
                        shutil.move(os.path.join(root, p), os.path.join(root, target))
                        tick(os.path.join(root, target))
                        project.validate(project.root)
                        feats.add("external")
                    else:
                        mutated = False
                elif kind == "ext_rmtree" and dirs:
                    d = pick(dirs, op[1], op)
                    shutil.rmtree(os.path.join(root, d))
                    project.validate(project.root)
                    feats.add("external")
                else:
                    mutated = False
            except rex.RopeError as e:
                out.refused += 1
                mutated = True  # a refused mutation must leave a coherent project too
            except Exception as e:
                out.violation("C13:operation_raised:%s:%s" % (kind, type(e).__name__), repr(e)[:300], sub)
                break
            if not mutated:
                continue
            out.evals += 1
            try:
                warm = observe(project, root)
            except Exception as e:
                out.violation("C13:observe_warm_raised:%s:%s" % (kind, type(e).__name__), repr(e)[:300], sub)
                break
            fresh_p = Project(root, ropefolder=None, ignored_resources=["*.txt"])
            try:
                try:
                    fresh = observe(fresh_p, root)
                except Exception as e:
                    out.notes["fresh_observe_raised:" + type(e).__name__] += 1
                    break
            finally:
                fresh_p.close()
            if warm != fresh:
                what = _first_difference(warm, fresh)
                out.violation("C13:stale:%s:%s" % (what[0], kind), "after step %d %s: %s" % (step, op, what[1]), sub)
                break
            if ai is not None and ai_on:
                hz = None
                if kind.startswith("ext_"):
                    hz = "autoimport_index_not_updated_by_validate"
                elif kind in ("move", "remove") and moved_dir:
                    hz = "autoimport_index_ignores_folder_move_and_removal"
                if hz:
                    out.labels["hazard:" + hz] += 1
                    if env.known(hz):
                        out.excluded[hz] += 1
                        ai_on = False
            if ai is not None and ai_on:
                feats.add("autoimport")
                out.labels["autoimport_comparisons"] += 1
                try:
                    warm_ai = _autoimport_image(ai)
                except Exception as e:
                    out.violation("C13:autoimport_raised:%s:%s" % (kind, type(e).__name__), repr(e)[:300], sub)
                    break
                fresh_ai = _fresh_autoimport_image(root)
                if warm_ai != fresh_ai:
                    only_w = [x for x in warm_ai if x not in fresh_ai][:4]
                    only_f = [x for x in fresh_ai if x not in warm_ai][:4]
                    out.violation("C13:stale:autoimport:%s" % kind, "after step %d %s: auto-import index: only long-lived %s, only fresh %s" % (step, op, only_w, only_f), sub)
                    break
            if queried:
                feats.add("warm")
        for f in feats:
            out.labels[f] += 1
        if "warm" in feats and "external" in feats:
            out.nontrivial.add("h")
    finally:
        if ai is not None:
            try:
                ai.clear_cache()
                ai.close()
            except Exception:
                pass
        project.close()
        core.rmtree(root)
    return out


def _first_difference(a, b):
    for k in ("files", "pyfiles", "find_module"):
        if a.get(k) != b.get(k):
            return k, "%s: long-lived %s, fresh %s" % (k, _short(a.get(k)), _short(b.get(k)))
    ma, mb = a.get("modules", {}), b.get("modules", {})
    for p in sorted(set(ma) | set(mb)):
        if ma.get(p) != mb.get(p):
            x, y = ma.get(p), mb.get(p)
            if isinstance(x, dict) and isinstance(y, dict):
                for k in ("source", "attrs", "defs", "object_attrs", "scope_names", "occurrences"):
                    if x.get(k) != y.get(k):
                        return k, "%s %s: long-lived %s, fresh %s" % (p, k, _short(x.get(k)), _short(y.get(k)))
            return "module", "%s: long-lived %s, fresh %s" % (p, _short(x), _short(y))
    return "other", ""


def _short(v):
    s = repr(v)
    return s if len(s) < 300 else s[:300] + "..."
