"""C04 - inline variable / function / parameter preserves behaviour or is refused.

Case = lib.py defining the target (a function or method with a straight-line body and one final return over its
parameters, a module constant and a helper; or a once-assigned variable with a pure atomic/parenthesised defining
expression; or a parameter default), call sites / uses in lib.py and use.py in the shapes positional / keyword /
default / mixed, as a statement, in an assignment and nested in an expression, and the options remove x only_current.
Oracle: compiles, prints the same output, and with remove=True no NAME token of the definition remains.
"""
import io
import tokenize

from hypothesis import strategies as st

from vlib import core, fsmodel, runner

PID = "C04"
LEVEL = "exploration"
TECHNIQUE = "metamorphic testing: inline then run (Hypothesis: definitions x call-site sets x options), output equality + no leftover reference"
RULE = (
    "target kind in {function, method, variable, parameter default} x 2-6 sites over 2 modules (argument shapes positional / keyword / "
    "default / mixed; positions statement / assignment / nested expression / two on one line) x remove x only_current; arguments and "
    "defining expressions atomic or parenthesised; non-trivial = accepted inline with >= 2 sites of different argument shapes or a site "
    "in another module; distinct by case hash"
    "; call sites also inside functions (with / without a clashing local), method bodies reading self.m, bodies needing a module import next to a module with a longer name, a reader defined above the inlined variable"
)
ASSUMPTIONS = [
    "only_current and remove are combined only when the current occurrence is the last one (caller contract stated in inline.py)",
    "bodies are straight-line with a single final return (what rope documents as inlineable); everything is int-valued and total",
]
BUDGET = {"quick": (30000, 240), "thorough": (300000, 2700)}

PN = ["a", "b", "c"]


@st.composite
def cases(draw):
    kind = draw(st.sampled_from(["function", "function", "method", "variable", "parameter"]))
    n = draw(st.integers(0, 3))
    ndef = draw(st.integers(0, n))
    params = [[PN[k], (str(draw(st.integers(10, 19))) if k >= n - ndef else None)] for k in range(n)]
    # body: optional local statements then return
    atoms = [p[0] for p in params] + ["K", "helper(2)", "3"]
    if kind == "method" and draw(st.booleans()):
        atoms += ["self.m", "self.m"]
    modattr = draw(st.integers(0, 3)) == 0
    if modattr:
        atoms += ["kx.v", "kx.v"]  # the body needs `import kx`, which rope has to add wherever it inlines the body
    nlocal = draw(st.integers(0, 2))
    body = []
    for k in range(nlocal):
        body.append(["t%d" % k, "%s %s %s" % (draw(st.sampled_from(atoms)), draw(st.sampled_from("+-*")), draw(st.sampled_from(atoms)))])
        atoms.append("t%d" % k)
    ret = "%s %s %s" % (draw(st.sampled_from(atoms)), draw(st.sampled_from("+-*")), draw(st.sampled_from(atoms)))
    sites = []
    for _ in range(draw(st.integers(2, 6))):
        shape = draw(st.sampled_from(["pos", "kw", "mixed", "omit"]))
        stop = n
        if shape in ("omit", "kw", "mixed") and ndef and draw(st.booleans()):
            stop = draw(st.integers(n - ndef, n))
        npos = stop if shape in ("pos", "omit") else (0 if shape == "kw" else draw(st.integers(0, stop)))
        vals = [draw(st.sampled_from(["1", "2", "7", "K", "w", "K", "2", "1", "w", "7", "5", "(K + 1)", "K + 1"])) for _ in range(stop)]
        sites.append({
            "args": vals[:npos],
            "kws": [[PN[k], vals[k]] for k in range(npos, stop)],
            "pos": draw(st.sampled_from(["stmt", "assign", "nested", "nested", "print", "multiline", "stmt_tail"])),
            "module": draw(st.sampled_from(["lib", "use", "use"])),
            "qualified": draw(st.booleans()),
            # where the call stands: module level, or inside a function of its own without / with a local named like a
            # local of the inlined body (t0), which the inlined code must not overwrite
            "host": draw(st.sampled_from(["module", "module", "func", "func_clash"])),
        })
    return {
        "kind": kind,
        "params": params,
        "body": body,
        "ret": ret,
        "sites": sites,
        "two_on_one_line": draw(st.integers(0, 5)) == 0,
        "var_expr": draw(st.sampled_from(["5", "K", "(K + 2)", "helper(3)", "(K * 2 + 1)", "K + 2"])),
        "remove": draw(st.booleans()),
        "only_current": draw(st.integers(0, 3)) == 0,
        "query": draw(st.sampled_from(["def", "site"])),
        "capture": draw(st.booleans()),
        "modattr": modattr,
        "early_reader": draw(st.booleans()),
        "prefix_import": draw(st.booleans()),
        # flat modules, or the defining module in a sub-package and the using module one level up, importing relatively
        "layout": draw(st.sampled_from(["flat", "flat", "package"])),
    }


def strategy(tier):
    return cases()


def render(case):
    kind = case["kind"]
    head = "K = 4\ndef helper(p):\n    return p + K\nw = 6\n"
    ps = ", ".join(n if d is None else "%s=%s" % (n, d) for n, d in case["params"])
    body = "".join("    %s = %s\n" % (t, e) for t, e in case["body"])
    lib_sites, use_sites = [], []
    if kind in ("function", "parameter"):
        lib = head + "def target(%s):\n%s    return %s\n" % (ps, body, case["ret"])
        local, qual = "target", "lib.target"
        imp = "import lib\nfrom lib import target, K, w, helper\n"
    elif kind == "method":
        ind = "    "
        lib = head + "class Host:\n    m = 9\n    def target(%s):\n%s        return %s\nobj = Host()\n" % (
            ", ".join(["self"] + ([ps] if ps else [])), "".join(ind + ln + "\n" for ln in body.splitlines()), case["ret"])
        local, qual = "obj.target", "lib.obj.target"
        imp = "import lib\nfrom lib import obj, K, w, helper\n"
    else:
        early = "def early_reader():\n    return target + 1\n" if case.get("early_reader") else ""
        lib = head + early + "target = %s\n" % case["var_expr"] + ("print(early_reader())\n" if early else "")
        local, qual = "target", "lib.target"
        imp = "import lib\nfrom lib import target, K, w, helper\n"
    k = 0
    for s in case["sites"]:
        if kind == "variable":
            ref_l, ref_q = local, qual
        else:
            parts = list(s["args"]) + ["%s=%s" % tuple(kv) for kv in s["kws"]]
            call = "(%s)" % ", ".join(parts)
            ref_l, ref_q = local + call, qual + call
        ref = ref_l if s["module"] == "lib" or not s["qualified"] else ref_q
        k += 1
        if s.get("host", "module") != "module" and kind != "variable":
            clash = s["host"] == "func_clash"
            line = "def h%d():\n%s    r%d = %s\n    return r%d%s\nprint(h%d())\n" % (k, "    t0 = 50\n" if clash else "", k, ref, k, " + t0" if clash else "", k)
        elif s["pos"] == "stmt" and kind != "variable":
            line = "%s\n" % ref
        elif s["pos"] == "stmt_tail" and kind != "variable":
            # the call starts its statement and the statement goes on behind the closing parenthesis, using the value
            line = "%s %s print('tail %d')\n" % (ref, "and" if k % 2 else "or", k)
        elif s["pos"] == "multiline":
            # the call stands on a continuation line of a statement that follows a deeper-indented block
            line = "if not w:\n    pass\nr%d = (1 +\n    %s)\nprint(r%d)\n" % (k, ref, k)
        elif s["pos"] == "assign":
            line = "r%d = %s\nprint(r%d)\n" % (k, ref, k)
        elif s["pos"] == "nested":
            line = "print(%s * 2 + helper(%s))\n" % (ref, ref if case["two_on_one_line"] else "1")
        else:
            line = "print(%s)\n" % ref
        (lib_sites if s["module"] == "lib" else use_sites).append(line)
    lib += "".join(lib_sites)
    # use.py imports only what its own text needs: names the inlined body brings along must be imported by rope
    body_text = "".join(use_sites)
    needed = [x for x in ("K", "helper") if x in body_text]
    imp = imp.replace(", K, w, helper", ", w" + "".join(", " + x for x in needed))
    use = imp + body_text
    if case.get("capture") and kind != "variable":
        # the host modules own a t0 of their own: inlined locals must not capture it
        lib = lib.replace("w = 6\n", "w = 6\nt0 = 100\n", 1) + "print('t0', t0)\n"
        use = use.replace(imp, imp + "t0 = 200\n", 1) + "print('t0', t0)\n"
    files = {"lib.py": lib, "use.py": use, "main.py": "import lib\nimport use\n"}
    if case.get("modattr"):
        files["lib.py"] = "import kx\n" + files["lib.py"]
        files["kx.py"] = "v = 3\n"
        if case.get("prefix_import"):
            # a module whose name merely starts with kx is imported where the body gets inlined
            files["kxy.py"] = "u = 8\n"
            files["use.py"] = "import kxy\n" + files["use.py"] + "print(kxy.u)\n"
    return files


def _paths(case):
    return ("pkg/core/lib.py", "pkg/use.py") if case.get("layout") == "package" else ("lib.py", "use.py")


def _to_package(files):
    out = dict(files)
    lib, use = out.pop("lib.py"), out.pop("use.py")
    use = use.replace("import lib\n", "from .core import lib\n", 1).replace("from lib import ", "from .core.lib import ", 1)
    out.update({"pkg/__init__.py": "", "pkg/core/__init__.py": "", "pkg/core/lib.py": lib, "pkg/use.py": use, "main.py": "import pkg.core.lib\nimport pkg.use\n"})
    return out


def describe(case):
    f = render(case)
    return {"layout": case.get("layout", "flat"), "lib.py": f["lib.py"], "use.py": f["use.py"], "remove": case["remove"], "only_current": case["only_current"], "query": case["query"], "kind": case["kind"]}


def hazards(case, files):
    hz = set()
    kind = case["kind"]
    if case["two_on_one_line"] and kind != "variable" and any(s["pos"] == "nested" for s in case["sites"]):
        hz.add("two_calls_on_one_line")
    if kind == "variable" and not (case["var_expr"].startswith("(") or case["var_expr"].replace("(3)", "").isalnum() or case["var_expr"] == "helper(3)"):
        hz.add("variable_inlined_without_parentheses")
    if kind in ("function", "method"):
        # body text is substituted verbatim: a compound argument or a parameter used as an operand of * needs parentheses
        ops = " ".join([e for _, e in case["body"]] + [case["ret"]])
        # also a parenthesised compound argument: the call parser re-reads arguments from AST extents, which drop the parentheses
        compound_arg = any(("+" in v or "*" in v) for s in case["sites"] for v in s["args"] + [kv[1] for kv in s["kws"]])
        if compound_arg:
            hz.add("compound_argument_expression")
        # the returned expression lands in a tighter context (the site multiplies it): low-precedence returns need parentheses
        if any(s["pos"] == "nested" for s in case["sites"]) and ("+" in case["ret"] or "-" in case["ret"]):
            hz.add("returned_expression_inlined_without_parentheses")
    if kind in ("function", "variable") and case["remove"] and not any(s["module"] == "use" for s in case["sites"]):
        hz.add("unused_from_import_of_inlined_name")
    if not case["remove"] and kind in ("function", "method") and not any(s["module"] == "lib" for s in case["sites"]):
        hz.add("remove_false_without_call_in_defining_module")
    return hz


def names_in(files, name):
    out = []
    for p, s in files.items():
        try:
            for t in tokenize.generate_tokens(io.StringIO(s).readline):
                if t.type == tokenize.NAME and t.string == name:
                    out.append((p, t.start))
        except (tokenize.TokenError, SyntaxError, IndentationError):
            pass
    return out


def evaluate(case, env):
    from rope.base import exceptions as rex
    from rope.base.project import Project
    from rope.refactor import inline

    out = core.Outcome()
    files = render(case)
    LIBP, USEP = _paths(case)
    if case.get("layout") == "package":
        files = _to_package(files)
    base = runner.run(files, "main.py")
    if base[1]:
        raise core.HarnessError("generated project raises %s\n%s" % (base[1], runner.LAST_TB))
    kind = case["kind"]
    if kind == "parameter" and not any(d is not None for _, d in case["params"]):
        out.notes["no_default_to_inline"] += 1
        return out
    for hz in sorted(hazards(case, files)):
        out.labels["hazard:" + hz] += 1
        if env.known(hz):
            out.excluded[hz] += 1
            return out
    out.labels["kind:" + kind] += 1
    root = core.fresh_dir("c04")
    fsmodel.write_tree(root, files)
    project = Project(root, ropefolder=None)
    try:
        lib = files[LIBP]
        only_current = case["only_current"]
        remove = case["remove"]
        if kind == "parameter":
            pname = [n for n, d in case["params"] if d is not None][0]
            off = lib.index("def target(") + len("def target(") + lib[lib.index("def target(") + len("def target("):].index(pname)
            res = project.get_file(LIBP)
            kwargs = {}
        else:
            # query: the definition, or the LAST occurrence (so that only_current + remove is a legal request)
            if case["query"] == "def" and not only_current:
                off = lib.index("target")
                res = project.get_file(LIBP)
            else:
                use = files[USEP]
                if "target" in use.split("\n", 2)[2] if use.count("\n") >= 2 else False:
                    body_start = len(use) - len(use.split("\n", 2)[2])
                    off = use.rindex("target")
                    res = project.get_file(USEP)
                else:
                    off = lib.rindex("target")
                    if off == lib.index("target"):
                        out.notes["no_use_site"] += 1
                        return out
                    res = project.get_file(LIBP)
            kwargs = {"remove": remove, "only_current": only_current}
            if only_current and remove:
                # caller contract: legal only when the queried occurrence is the last remaining reference
                nuses = sum(ln.count("target") for ln in files[USEP].split("\n")[2:]) + files[LIBP].count("target") - 1
                if nuses != 1:
                    kwargs["remove"] = remove = False
        out.evals += 1
        sub = {"offset": off, "file": res.path, "kwargs": kwargs}
        try:
            changes = inline.create_inline(project, res, off).get_changes(**kwargs)
        except rex.RopeError as e:
            out.refused += 1
            out.labels["refused:" + kind] += 1
            return out
        except Exception as e:
            out.violation("C04:internal_error:%s:%s" % (type(e).__name__, kind), "%r with %s" % (e, kwargs), sub)
            return out
        from props.c01_rename import apply_changes

        try:
            new_files, moves = apply_changes(files, changes)
        except core.HarnessError:
            raise
        if any(v is None for v in new_files.values()):
            out.violation("C04:change_without_contents:%s" % kind, "a ChangeContents carries None (%s)" % kwargs, sub)
            return out
        bad = runner.compiles(new_files)
        where = "%s %s query at %s:%d\n%s" % (kind, kwargs, res.path, off, _show(files, new_files))
        if bad:
            out.violation("C04:does_not_compile:%s" % kind, "%s\n%s" % (bad[0], where), sub)
            return out
        got = runner.run(new_files, "main.py")
        if got != base:
            out.violation("C04:behaviour:%s%s" % (kind, ":" + got[1] if got[1] else ""), "output %r/%s -> %r/%s\n%s" % (base[0][-80:], base[1], got[0][-80:], got[1], where), sub)
            return out
        if kind != "parameter" and remove and not only_current:
            left = names_in(new_files, "target")
            if left:
                out.violation("C04:definition_still_referenced:%s" % kind, "%s\n%s" % (left[:4], where), sub)
                return out
        shapes = {(len(s["args"]), len(s["kws"])) for s in case["sites"]}
        if len(shapes) >= 2 or any(s["module"] == "use" for s in case["sites"]):
            out.nontrivial.add("c")
        out.labels["accepted:" + kind] += 1
    finally:
        project.close()
        core.rmtree(root)
    return out


def _show(a, b):
    import difflib

    res = []
    for p in sorted(a):
        if a[p] != b.get(p):
            res.append("".join(difflib.unified_diff(a[p].splitlines(True), (b.get(p) or "").splitlines(True), p, p, n=0)))
    return "".join(res)[:1800]
