"""C06 - signature changes keep every call bound to the same parameter values.

Case = a target (function / method / constructor) with 0-4 positional parameters, a defaulted suffix, optional
*args / **kw; 3-8 call sites over two modules in the shapes positional / keyword / mixed / defaults omitted /
*seq / **map / obj.m() / Cls() / mod.f(); a LEGAL changer sequence of length 1-2 (the resulting header is valid
Python).  The target prints sorted(locals().items()) on entry, so the interpreter-made binding of every call is
observable: after the change the k-th call must bind every surviving parameter to the same value, an added
parameter to the stated default/value, and the rest of the output must be unchanged.
"""
import ast

from hypothesis import strategies as st

from vlib import core, fsmodel, runner

PID = "C06"
LEVEL = "exploration"
TECHNIQUE = "metamorphic testing with interpreter-observed bindings: change the signature, run, compare the per-call parameter bindings (Hypothesis: signatures x call sets x legal changer sequences)"
RULE = (
    "signature (0-4 positionals, defaulted suffix, optional *args/**kw; function | method | constructor) x 3-8 call sites in 2 "
    "modules (positional, keyword, mixed, defaults omitted, *seq, **map, qualified) x changer sequence of length 1-2 from "
    "Normalizer, Reorderer(+autodef), Adder(default|value), Remover, DefaultInliner - only sequences whose resulting header is legal; "
    "non-trivial = >= 3 call sites in >= 2 shapes with a keyword call and a changer other than Normalizer alone; distinct by case hash"
    "; further shapes: a call nested in another call's arguments, a positional-only prefix (with Normalizer / DefaultInliner only), a constructor of a nested class next to a top-level class of the same name; one case in six is an IntroduceParameter request with a behavioural oracle"
)
ASSUMPTIONS = [
    "the target's body only observes its parameters (prints locals()), so any parameter may be removed",
    "no annotations or keyword-only parameters (functionutils carries a FIXME for them); a positional-only prefix only with changers that keep the order",
]
BUDGET = {"quick": (30000, 240), "thorough": (400000, 2700)}

PN = ["a", "b", "c", "d"]


@st.composite
def cases(draw):
    kind = draw(st.sampled_from(["function", "function", "method", "constructor"]))
    n = draw(st.integers(0, 4))
    ndef = draw(st.integers(0, n))
    params = [(PN[k], (str(draw(st.integers(10, 19))) if k >= n - ndef else None)) for k in range(n)]
    star = draw(st.booleans()) and draw(st.booleans())
    kw = draw(st.booleans()) and draw(st.booleans())
    # positional-only prefix (def f(a, b=1, /, c=2)): such cases keep to positional calls and to changers that leave the order alone
    posonly = draw(st.integers(1, n)) if n and draw(st.integers(0, 4)) == 0 else 0
    # call sites
    ncalls = draw(st.integers(3, 8))
    calls = []
    star_shapes = draw(st.integers(0, 4)) == 0
    surplus = draw(st.integers(0, 3)) == 0
    for _ in range(ncalls):
        shape = draw(st.sampled_from((["pos", "kw", "mixed", "omit", "pos"] + (["starseq", "starmap"] if star_shapes else [])) if not posonly else ["pos", "omit"]))
        args, kws = [], []
        stop = n
        if shape in ("omit", "kw", "mixed") and ndef and draw(st.booleans()):
            stop = draw(st.integers(n - ndef, n))
        npos = stop if shape in ("pos", "omit", "starseq", "starmap") else (0 if shape == "kw" else draw(st.integers(0, stop)))
        # values: digits, and now and then a string literal with non-ASCII characters or a small expression (what follows them
        # in the call is at different byte and character columns)
        vals = [draw(st.sampled_from(["%d", "%d", "%d", "%d", "'\u00e9\u00df%d'", "(%d + 1)"])) % draw(st.integers(1, 9)) for _ in range(stop)]
        for k in range(stop):
            if k < npos:
                args.append(vals[k])
            else:
                kws.append((PN[k], vals[k]))
        if shape == "kw" and len(kws) > 1 and draw(st.booleans()):
            kws = list(reversed(kws))
        extra_pos = []
        extra_kw = []
        if surplus and star and npos == n and draw(st.booleans()):
            extra_pos = [str(draw(st.integers(20, 29)))]
        if surplus and kw and draw(st.booleans()):
            extra_kw = [("zz", str(draw(st.integers(30, 39))))]
        calls.append({"shape": shape, "args": args, "kws": kws, "extra_pos": extra_pos, "extra_kw": extra_kw, "module": draw(st.sampled_from(["lib", "use", "use"])), "qualified": draw(st.booleans()),
                      # the first positional argument is itself a call of the target (same argument text)
                      "nested": draw(st.integers(0, 29)) == 0})
    # changers, kept legal by simulating the header
    sig = [list(p) for p in params]
    changers = []
    for _ in range(draw(st.integers(1, 2))):
        base = 1 if kind in ("method", "constructor") else 0
        opts = ["normalize", "add"]
        if sig:
            opts += ["remove", "reorder", "reorder"]
        if posonly:
            opts = ["normalize"]
        if any(d is not None for _, d in sig):
            opts.append("inline_default")
        c = draw(st.sampled_from(opts))
        if c == "normalize":
            changers.append(["normalize"])
        elif c == "remove":
            i = draw(st.integers(0, len(sig) - 1))
            changers.append(["remove", base + i])
            del sig[i]
        elif c == "inline_default":
            idx = [i for i, (_, d) in enumerate(sig) if d is not None]
            i = draw(st.sampled_from(idx))
            changers.append(["inline_default", base + i])
        elif c == "add":
            name = "n%d" % len(changers)
            first_def = min([k for k, (_, d) in enumerate(sig) if d is not None] + [len(sig)])
            last_nondef = max([k for k, (_, d) in enumerate(sig) if d is None] + [-1])
            mode = draw(st.sampled_from(["default", "value", "both"]))
            default = str(draw(st.integers(40, 49))) if mode in ("default", "both") else None
            value = str(draw(st.integers(50, 59))) if mode in ("value", "both") else None
            # legal header: a parameter with a default goes after the last default-less one, one without before the first default
            i = draw(st.integers(last_nondef + 1, len(sig))) if default is not None else draw(st.integers(0, first_def))
            changers.append(["add", base + i, name, default, value])
            sig.insert(i, [name, default])
        else:  # reorder
            perm = draw(st.permutations(list(range(len(sig)))))
            new = [sig[k] for k in perm]
            autodef = None
            seen = False
            for k, (nm, d) in enumerate(new):
                if d is not None:
                    seen = True
                elif seen:
                    autodef = "77"
            if autodef:
                seen = False
                for k, (nm, d) in enumerate(new):
                    if d is not None:
                        seen = True
                    elif seen:
                        new[k] = [nm, autodef]
            order = list(range(base)) + [base + k for k in perm]
            changers.append(["reorder", order, autodef])
            sig = [list(x) for x in new]
    # constructor variant: the class is nested in another class and a top-level class of the same simple name exists
    return {"kind": kind, "params": params, "star": star, "kw": kw, "calls": calls, "changers": changers, "nested_class": draw(st.integers(0, 2)) == 0, "posonly": posonly}


@st.composite
def intro_cases(draw):
    """IntroduceParameter: an expression made of module-level names, used 1-3 times in the body of a function (and around
    it), becomes a new defaulted parameter; every call keeps its meaning because the default is that expression."""
    expr = draw(st.sampled_from(["K", "cfg.size", "cfg.size"]))
    uses = draw(st.integers(1, 3))
    body = draw(st.sampled_from(["return a + {e}", "t = {e} * 2\n    return t + a", "if a > {e}:\n        return {e}\n    return a - {e}"]))
    after = draw(st.sampled_from(["", "\n", "{e}.__class__\n", "\n{e}.__class__\n", "x9 = {e}\nprint(x9)\n", "print({e})\n"]))
    before = draw(st.sampled_from(["", "y9 = {e}\n"]))
    kind = draw(st.sampled_from(["function", "method"]))
    calls = [draw(st.sampled_from(["target(1)", "target(a=2)", "target(5)"])) for _ in range(draw(st.integers(1, 3)))]
    return {"intro": True, "expr": expr, "uses": uses, "body": body, "after": after, "before": before, "kind": kind, "calls": calls,
            "query_use": draw(st.integers(0, 2))}


def render_intro(case):
    e = case["expr"]
    head = "K = 4\ndef helper(p):\n    return p + 1\nclass Cfg:\n    size = 3\ncfg = Cfg()\n"
    body = case["body"].replace("{e}", e)
    if case["kind"] == "function":
        fn = "def target(a):\n    %s\n" % body
        calls = "".join("print(%s)\n" % c for c in case["calls"])
        use_calls = "".join("print(lib.%s)\n" % c for c in case["calls"])
    else:
        fn = "class Host:\n    def target(self, a):\n        %s\n" % body.replace("\n    ", "\n        ")
        calls = "obj = Host()\n" + "".join("print(obj.%s)\n" % c for c in case["calls"])
        use_calls = "".join("print(lib.obj.%s)\n" % c for c in case["calls"])
    lib = head + case["before"].replace("{e}", e) + fn + case["after"].replace("{e}", e) + calls
    return {"lib.py": lib, "use.py": "import lib\n" + use_calls, "main.py": "import lib\nimport use\n"}


@st.composite
def hier_cases(draw):
    """in_hierarchy=True: a method (plain, class or static) that a subclass overrides and that the base class calls
    polymorphically; reordering its parameters must reach every override, or dynamic dispatch binds the arguments the
    other way round"""
    deco = draw(st.sampled_from(["", "@classmethod", "@staticmethod"]))
    levels = draw(st.integers(2, 3))
    override_all = draw(st.booleans())
    query = draw(st.integers(0, levels - 1))
    other_module = draw(st.booleans())
    return {"hier": True, "deco": deco, "levels": levels, "override_all": override_all, "query": query, "other_module": other_module,
            "changer": draw(st.sampled_from(["reorder", "remove_first", "add_last"]))}


def render_hier(case):
    deco = case["deco"]
    first = {"": "self", "@classmethod": "cls", "@staticmethod": ""}[deco]
    recv = "self"
    names = ["Base", "Mid", "Leaf"][: case["levels"]]
    lib, sub = "", ""
    for k, cn in enumerate(names):
        text = "class %s%s:\n" % (cn, "(%s)" % names[k - 1] if k else "")
        has = k == 0 or case["override_all"] or k == case["levels"] - 1
        if has:
            text += ("    %s\n" % deco if deco else "") + "    def build(%s):\n        return ('%s', a, b)\n" % (", ".join([x for x in [first, "a", "b"] if x]), cn)
        if k == 0:
            text += "    def make(self):\n        return %s.build(1, 2)\n" % recv
        if not has and k:
            text += "    pass\n" if "def " not in text else ""
        if case["other_module"] and k:
            sub += text
        else:
            lib += text
    calls = "print(%s)\n" % ", ".join("%s().make(), %s().build(3, b=4)" % (cn, cn) for cn in names)
    files = {"lib.py": lib + ("" if case["other_module"] else calls), "main.py": "import lib\n"}
    if case["other_module"]:
        files["sub.py"] = "from lib import Base\n" + sub + calls
        files["main.py"] += "import sub\n"
    return files


def _evaluate_hier(case, env):
    from rope.base import exceptions as rex
    from rope.base.project import Project
    from rope.refactor import change_signature as cs

    from props.c05_move import _apply, _show as show5

    out = core.Outcome()
    files = render_hier(case)
    base = runner.run(files, "main.py")
    if base[1]:
        raise core.HarnessError("generated project raises %s\n%s" % (base[1], runner.LAST_TB))
    out.labels["kind:hierarchy" + (":" + case["deco"] if case["deco"] else ":method")] += 1
    root = core.fresh_dir("c06h")
    fsmodel.write_tree(root, files)
    project = Project(root, ropefolder=None)
    try:
        # the query-th definition of build
        defs = [(p_, m_.start() + 4) for p_ in sorted(files) for m_ in __import__("re").finditer(r"def build\(", files[p_])]
        path, off = defs[case["query"] % len(defs)]
        base_idx = 0 if case["deco"] == "@staticmethod" else 1
        if case["changer"] == "reorder":
            changers = [cs.ArgumentReorderer([0, 2, 1] if base_idx else [1, 0])]
        elif case["changer"] == "remove_first":
            changers = None  # replaced below: removing a would change the printed tuples, so only reorder/add are behavioural no-ops
        else:
            changers = [cs.ArgumentAdder(base_idx + 2, "extra", "0", "0")]
        if changers is None:
            changers = [cs.ArgumentNormalizer()]
        out.evals += 1
        try:
            changes = cs.ChangeSignature(project, project.get_file(path), off).get_changes(changers, in_hierarchy=True)
        except rex.RopeError:
            out.refused += 1
            return out
        except Exception as e:
            out.notes["crashed:%s (see C09)" % type(e).__name__] += 1
            return out
        new_files, moves = _apply(files, changes)
        where = "%s on %s:%d in_hierarchy=True, %s\n%s" % (case["changer"], path, off, case["deco"] or "plain method", show5(files, new_files, moves))
        bad = runner.compiles(new_files)
        if bad:
            out.violation("C06:hierarchy:does_not_compile", "%s\n%s" % (bad[0], where))
            return out
        got = runner.run(new_files, "main.py")
        if got != base:
            out.violation("C06:hierarchy:behaviour%s" % (":" + got[1] if got[1] else ""), "output %r/%s -> %r/%s\n%s" % (base[0][-120:], base[1], got[0][-120:], got[1], where))
            return out
        if new_files != files:
            out.nontrivial.add(("h", case["deco"], case["levels"]))
    finally:
        project.close()
        core.rmtree(root)
    return out


def strategy(tier):
    return st.one_of(cases(), cases(), cases(), cases(), cases(), intro_cases(), hier_cases())


def render(case):
    kind = case["kind"]
    plist = [n if d is None else "%s=%s" % (n, d) for n, d in case["params"]]
    if case.get("posonly"):
        plist.insert(case["posonly"], "/")
    ps = ", ".join(plist)
    extra = []
    if case["star"]:
        extra.append("*args")
    if case["kw"]:
        extra.append("**kw")
    allp = ", ".join([x for x in [ps] + extra if x])
    body = "print('CALL', sorted((k, v) for k, v in locals().items() if k != 'self'))"
    if kind == "function":
        lib = "def target(%s):\n    %s\n    return 1\n" % (allp, body)
        callee_local, callee_q = "target", "lib.target"
    elif kind == "method":
        lib = "class Host:\n    def target(%s):\n        %s\n        return 1\nobj = Host()\n" % (", ".join([x for x in ["self", allp] if x]), body)
        callee_local, callee_q = "obj.target", "lib.obj.target"
    elif case.get("nested_class"):
        lib = (
            "class Target:\n    def __init__(self, z=0):\n        print('OTHER', z)\n"
            "class Outer:\n    class Target:\n        def __init__(%s):\n            %s\n" % (", ".join([x for x in ["self", allp] if x]), body)
            + "print('o', Target(3) is not None, Target(z=4) is not None)\n"
        )
        callee_local, callee_q = "Outer.Target", "lib.Outer.Target"
    else:
        lib = "class Target:\n    def __init__(%s):\n        %s\n" % (", ".join([x for x in ["self", allp] if x]), body)
        callee_local, callee_q = "Target", "lib.Target"
    lib_calls, use_calls = [], []
    for c in case["calls"]:
        parts = list(c["args"])
        if c["shape"] == "starseq" and parts:
            parts = ["*(%s,)" % ", ".join(parts)]
        kws = ["%s=%s" % tuple(kv) for kv in c["kws"]]
        if c["shape"] == "starmap" and kws:
            kws = ["**{%s}" % ", ".join("'%s': %s" % tuple(kv) for kv in c["kws"])]
        parts += c["extra_pos"]
        parts += kws
        parts += ["%s=%s" % tuple(kv) for kv in c["extra_kw"]]
        text = "(%s)" % ", ".join(parts)
        if c.get("nested") and c["args"] and c["shape"] not in ("starseq", "starmap") and kind != "constructor":
            callee_here = callee_local if (c["module"] == "lib" or not c["qualified"]) else callee_q
            text = "(%s)" % ", ".join([callee_here + text] + parts[1:])
        if c["module"] == "lib":
            lib_calls.append("print('r', %s%s is not None)" % (callee_local, text))
        elif c["qualified"]:
            use_calls.append("print('r', %s%s is not None)" % (callee_q, text))
        else:
            use_calls.append("print('r', %s%s is not None)" % (callee_local.replace("obj.", "obj."), text))
    lib += "\n".join(lib_calls) + ("\n" if lib_calls else "")
    imp = "import lib\nfrom lib import %s\n" % ({"function": "target", "method": "obj", "constructor": "Outer" if case.get("nested_class") else "Target"}[kind])
    if kind == "constructor" and case.get("nested_class"):
        imp += "print('o', lib.Target(5) is not None)\n"
    use = imp + "\n".join(use_calls) + ("\n" if use_calls else "")
    main = "import lib\nimport use\n"
    return {"lib.py": lib, "use.py": use, "main.py": main}


def describe(case):
    if case.get("hier"):
        return dict(render_hier(case), case=case)
    if case.get("intro"):
        return {"lib.py": render_intro(case)["lib.py"], "refactoring": "IntroduceParameter"}
    f = render(case)
    return {"lib.py": f["lib.py"], "use.py": f["use.py"], "changers": case["changers"]}


def expected_signature(case):
    """names that survive / are added, with what an added one must be bound to when a call does not mention it"""
    sig = [[n, d] for n, d in case["params"]]
    added = {}
    removed = set()
    base = 1 if case["kind"] in ("method", "constructor") else 0
    for ch in case["changers"]:
        if ch[0] == "remove":
            gone = sig[ch[1] - base][0]
            removed.add(gone)
            added.pop(gone, None)
            del sig[ch[1] - base]
        elif ch[0] == "add":
            added[ch[2]] = ch[4] if ch[4] is not None else ch[3]
            sig.insert(ch[1] - base, [ch[2], ch[3]])
        elif ch[0] == "reorder":
            perm = [k - base for k in ch[1][base:]]
            sig = [sig[k] for k in perm]
    return sig, added, removed


def hazards(case):
    hz = set()
    shapes = {c["shape"] for c in case["calls"]}
    kinds = [ch[0] for ch in case["changers"]]
    if ("starseq" in shapes or "starmap" in shapes) and any(c["args"] or c["kws"] for c in case["calls"] if c["shape"] in ("starseq", "starmap")):
        hz.add("star_arguments_at_call_sites")
    if any(c["extra_pos"] or c["extra_kw"] for c in case["calls"]):
        hz.add("extra_star_args_at_call_sites")
    if case["kind"] != "constructor" and any(c.get("nested") and c["args"] and c["shape"] not in ("starseq", "starmap") for c in case["calls"]):
        hz.add("call_nested_in_the_arguments_of_another_call")
    return hz


def parse_calls(stdout):
    out = []
    for line in stdout.splitlines():
        if line.startswith("CALL "):
            out.append(dict(ast.literal_eval(line[5:])))
    return out


def _evaluate_intro(case, env):
    from rope.base import exceptions as rex
    from rope.base.project import Project
    from rope.refactor.introduce_parameter import IntroduceParameter

    from props.c05_move import _apply, _show as show5

    out = core.Outcome()
    files = render_intro(case)
    base = runner.run(files, "main.py")
    if base[1]:
        raise core.HarnessError("generated project raises %s\n%s" % (base[1], runner.LAST_TB))
    out.labels["kind:introduce_parameter"] += 1
    root = core.fresh_dir("c06i")
    fsmodel.write_tree(root, files)
    project = Project(root, ropefolder=None)
    try:
        lib = files["lib.py"]
        fstart = lib.index("def target")
        # the k-th use of the expression inside the function
        offs = []
        pos = fstart
        while True:
            pos = lib.find(case["expr"], pos + 1)
            if pos < 0:
                break
            offs.append(pos)
        inside = [o for o in offs if o > fstart and (lib.find("\n", o) < len(lib)) and lib[lib.rfind("\n", 0, o) + 1: lib.rfind("\n", 0, o) + 2] == " "]
        if not inside:
            return out
        off = inside[case["query_use"] % len(inside)] + (len(case["expr"]) - 1 if "." in case["expr"] else 0)
        out.evals += 1
        try:
            changes = IntroduceParameter(project, project.get_file("lib.py"), off).get_changes("newp")
        except rex.RopeError:
            out.refused += 1
            return out
        except Exception as e:
            out.notes["crashed:%s (see C09)" % type(e).__name__] += 1
            return out
        new_files, moves = _apply(files, changes)
        where = "introduce parameter for %r\n%s" % (case["expr"], show5(files, new_files, moves))
        bad = runner.compiles(new_files)
        if bad:
            out.violation("C06:introduce_parameter:does_not_compile", "%s\n%s" % (bad[0], where))
            return out
        got = runner.run(new_files, "main.py")
        if got != base:
            out.violation("C06:introduce_parameter:behaviour%s" % (":" + got[1] if got[1] else ""), "output %r/%s -> %r/%s\n%s" % (base[0][-80:], base[1], got[0][-80:], got[1], where))
            return out
        if "newp=" + case["expr"].replace(" ", "") not in new_files["lib.py"].replace(" ", ""):
            out.violation("C06:introduce_parameter:no_defaulted_parameter", where)
            return out
        if len(inside) >= 2 or case["after"].strip():
            out.nontrivial.add("intro")
    finally:
        project.close()
        core.rmtree(root)
    return out


def evaluate(case, env):
    if case.get("intro"):
        return _evaluate_intro(case, env)
    if case.get("hier"):
        return _evaluate_hier(case, env)
    from rope.base import exceptions as rex
    from rope.base.project import Project
    from rope.refactor import change_signature as cs

    out = core.Outcome()
    files = render(case)
    base = runner.run(files, "main.py")
    if base[1]:
        raise core.HarnessError("generated project raises %s\n%s" % (base[1], runner.LAST_TB))
    for hz in sorted(hazards(case)):
        out.labels["hazard:" + hz] += 1
        if env.known(hz):
            out.excluded[hz] += 1
            return out
    out.labels["kind:" + case["kind"]] += 1
    for ch in case["changers"]:
        out.labels["changer:" + ch[0]] += 1
    root = core.fresh_dir("c06")
    fsmodel.write_tree(root, files)
    project = Project(root, ropefolder=None)
    try:
        lib = files["lib.py"]
        off = lib.index("target(") if case["kind"] != "constructor" else (lib.index("    class Target:") + 10 if case.get("nested_class") else lib.index("Target:"))
        changers = []
        for ch in case["changers"]:
            if ch[0] == "normalize":
                changers.append(cs.ArgumentNormalizer())
            elif ch[0] == "remove":
                changers.append(cs.ArgumentRemover(ch[1]))
            elif ch[0] == "add":
                changers.append(cs.ArgumentAdder(ch[1], ch[2], ch[3], ch[4]))
            elif ch[0] == "inline_default":
                changers.append(cs.ArgumentDefaultInliner(ch[1]))
            else:
                changers.append(cs.ArgumentReorderer(ch[1], autodef=ch[2]))
        out.evals += 1
        try:
            changes = cs.ChangeSignature(project, project.get_file("lib.py"), off).get_changes(changers)
        except rex.RopeError as e:
            out.refused += 1
            out.labels["refused"] += 1
            return out
        except Exception as e:
            out.violation("C06:internal_error:%s" % type(e).__name__, "%r with %s" % (e, case["changers"]))
            return out
        from props.c01_rename import apply_changes

        new_files, moves = apply_changes(files, changes)
        bad = runner.compiles(new_files)
        if bad:
            out.violation("C06:does_not_compile:%s" % "+".join(c[0] for c in case["changers"]), "%s\n%s" % (bad[0], _show(files, new_files)))
            return out
        got = runner.run(new_files, "main.py")
        sig, added, removed = expected_signature(case)
        where = "%s %s\n%s" % (case["kind"], case["changers"], _show(files, new_files))
        if got[1] != base[1]:
            out.violation("C06:raises:%s:%s" % (got[1], "+".join(c[0] for c in case["changers"])), where)
            return out
        b_calls, a_calls = parse_calls(base[0]), parse_calls(got[0])
        if len(b_calls) != len(a_calls):
            out.violation("C06:call_count", where)
            return out
        for k, (b, a) in enumerate(zip(b_calls, a_calls)):
            for name, val in b.items():
                if name in removed:
                    if name in a:
                        out.violation("C06:removed_parameter_still_bound", "call %d: %s\n%s" % (k, name, where))
                        return out
                    continue
                if name not in a or a[name] != val:
                    out.violation(
                        "C06:binding_changed:%s" % "+".join(c[0] for c in case["changers"]),
                        "call %d: parameter %r was %r, now %r\n%s" % (k, name, val, a.get(name, "<missing>"), where),
                    )
                    return out
            for name, want in added.items():
                if name not in a or (want is not None and repr(a[name]) != want):
                    out.violation("C06:added_parameter_binding:%s" % "+".join(c[0] for c in case["changers"]), "call %d: %r bound to %r, expected %s\n%s" % (k, name, a.get(name, "<missing>"), want, where))
                    return out
        rest_b = [ln for ln in base[0].splitlines() if not ln.startswith("CALL ")]
        rest_a = [ln for ln in got[0].splitlines() if not ln.startswith("CALL ")]
        if rest_b != rest_a:
            out.violation("C06:other_output_changed", where)
            return out
        shapes = {c["shape"] for c in case["calls"]}
        if len(case["calls"]) >= 3 and len(shapes) >= 2 and any(c["kws"] for c in case["calls"]) and any(ch[0] != "normalize" for ch in case["changers"]):
            out.nontrivial.add("c")
    finally:
        project.close()
        core.rmtree(root)
    return out


def _show(a, b):
    import difflib

    res = []
    for p in sorted(a):
        if a[p] != b.get(p):
            res.append("".join(difflib.unified_diff(a[p].splitlines(True), (b.get(p) or "").splitlines(True), p, p, n=0)))
    return "".join(res)[:1500]
