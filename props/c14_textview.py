"""C14 - rope's view of source text agrees with Python's tokenizer.

Inputs: G-SRC grammar texts, statement soup, and (enumerated) whole files of the interpreter's Lib/ and
rope's own sources.  Per text, EVERY offset, line number, logical line and NAME token is checked against
facts derived from tokenize / ast (R-TOK).
"""
import ast
import io
import keyword
import tokenize

from hypothesis import strategies as st

from vlib import core, srcgen

PID = "C14"
LEVEL = "exploration"
TECHNIQUE = "differential testing against tokenize/ast (Hypothesis grammar + statement soup + stdlib corpus), every offset/line/token per text; coverage-guided stage (atheris driving the same strategy) in the thorough tier"
RULE = (
    "texts from a concrete-syntax grammar with layout hazards (string prefixes x quotes x escapes, f-strings, comments with "
    "brackets/quotes, backslash continuations, multi-line brackets, semicolons, tabs, unicode identifiers), from stdlib "
    "statement soup, and the Lib/ + rope corpus files (sharded, every 3rd file in quick, all in thorough); inner loops over "
    "all offsets, lines, tokenizer logical lines and NAME tokens; non-trivial = text has a prefixed string or f-string, a "
    "comment, and a multi-line bracket or continuation; distinct by text hash"
)
ASSUMPTIONS = [
    "LF newlines, no form feeds (rope normalises newlines on read; C16 covers that)",
    "comment-only and blank lines between statements are not constrained for logical lines (rope treats them as their own lines)",
]
BUDGET = {"quick": (4800, 240), "thorough": (120000, 2700)}
# thorough tier: rope modules instrumented for the coverage-guided (atheris) stage, see vlib/fuzzworker.py
FUZZ_SECONDS = 240  # per process, thorough tier only
FUZZ_MODULES = ["rope.base.codeanalyze", "rope.base.simplify", "rope.base.worder"]


@st.composite
def chain_texts(draw):
    """dotted chains through calls and subscripts whose brackets hold every kind of bracketed or quoted thing: what the
    backward scan of get_primary_at has to jump over as a whole"""
    inner = ["1", "x", "'s)'", '"]"', "...", "{'k': 1}", "{1, 2}", "[1, (2, 3)]", "(a, b)", "g(y)", "{k: v for k, v in q}", "{e for e in q}",
             "[e for e in q if e]", "(e for e in q)", "f'{x}[]'", "key={1: 2}", "*rest", "**kw", "lambda p: p[0]", "a if b else c", "x[1:2, ...]"]
    lines = []
    for n in range(draw(st.integers(1, 4))):
        chain = draw(st.sampled_from(["make", "obj", "pkg.mod", "self"]))
        for _ in range(draw(st.integers(1, 4))):
            kind = draw(st.sampled_from(["call", "call", "sub", "attr"]))
            if kind == "attr":
                chain += draw(st.sampled_from([".attr", ".b", " . c"]))
            else:
                args = [draw(st.sampled_from(inner)) for _ in range(draw(st.integers(0, 3)))]
                if kind == "sub":
                    args = [a_ for a_ in args if "=" not in a_ and not a_.startswith("*") and " for " not in a_.strip("[](){}") or a_[0] in "[{("] or ["0"]
                    args = [a_ for a_ in args if not a_.startswith(("key=", "*", "(e for"))] or ["0"]
                    chain += "[" + ", ".join(args) + "]"
                else:
                    # keywords last, a bare generator only on its own
                    pos = [a_ for a_ in args if not a_.startswith(("key=", "**"))]
                    if any(a_.startswith("(e for") for a_ in pos) and len(args) > 1:
                        pos = [a_ for a_ in pos if not a_.startswith("(e for")]
                    star = [a_ for a_ in pos if a_.startswith("*")]
                    pos = [a_ for a_ in pos if not a_.startswith("*")] + star[:1]
                    kws = [a_ for a_ in args if a_.startswith("key=")][:1] + [a_ for a_ in args if a_.startswith("**")][:1]
                    sep = draw(st.sampled_from([", ", ",", ",\n      "]))
                    chain += "(" + sep.join(pos + kws) + ")"
        chain += draw(st.sampled_from([".tail", ".unwrap", " .last"]))
        lines.append(draw(st.sampled_from(["r%d = %s", "print(%s)" if False else "r%d = [%s]", "if %s: pass" if False else "r%d = (%s)"])) % (n, chain))
    return "\n".join(lines) + "\n"


def strategy(tier):
    return st.one_of(
        chain_texts().map(lambda s: {"src": s if srcgen.compiles(s) else "x = 1\n", "from": "chains"}),
        srcgen.grammar().map(lambda s: {"src": s, "from": "grammar"}),
        srcgen.grammar().map(lambda s: {"src": s, "from": "grammar"}),
        srcgen.soup().map(lambda s: {"src": s, "from": "soup"}),
    )


def enumerate_cases(tier, k, nworkers):
    files = srcgen.corpus_files()
    step = 3 if tier == "quick" else 1
    for i, path in enumerate(files[::step]):
        if i % nworkers != k:
            continue
        src = srcgen.read_source(path)
        if src is None or len(src) > (60000 if tier == "quick" else 400000):
            continue
        yield {"src": src, "from": "corpus:" + path.split("/lib/python3.12/")[-1]}


def describe(case):
    return {"from": case["from"], "src": case["src"][:500]}


# ------------------------------------------------------------------ R-TOK


class TokFacts:
    def __init__(self, src):
        self.src = src
        lines = src.split("\n")
        self.starts = [0]
        for ln in lines:
            self.starts.append(self.starts[-1] + len(ln) + 1)
        self.toks = list(tokenize.generate_tokens(io.StringIO(src).readline))
        self.spans = []  # (start, end, kind) kind in str|fstr|comment
        self.names = []  # (start, end, string, in_fstring)
        self.logical = []  # (first_line, last_line)
        depth = 0
        fstart = None
        first = None
        for t in self.toks:
            if t.type == tokenize.FSTRING_START:
                if depth == 0:
                    fstart = self.off(t.start)
                depth += 1
            elif t.type == tokenize.FSTRING_END:
                depth -= 1
                if depth == 0:
                    self.spans.append((fstart, self.end(t), "fstr"))
            elif depth == 0 and t.type == tokenize.STRING:
                self.spans.append((self.off(t.start), self.end(t), "str"))
            elif depth == 0 and t.type == tokenize.COMMENT:
                self.spans.append((self.off(t.start), self.end(t), "comment"))
            if t.type == tokenize.NAME and not keyword.iskeyword(t.string):
                self.names.append((self.off(t.start), self.end(t), t.string, depth > 0))
            if t.type in (tokenize.COMMENT, tokenize.NL, tokenize.INDENT, tokenize.DEDENT, tokenize.ENDMARKER):
                continue
            if t.type == tokenize.NEWLINE:
                if first is not None:
                    self.logical.append((first, t.start[0]))
                    first = None
                continue
            if first is None:
                first = t.start[0]
        if first is not None:
            self.logical.append((first, self.toks[-1].start[0]))

    def off(self, pos):
        return self.starts[pos[0] - 1] + pos[1]

    def end(self, t):
        # CPython 3.12 reports the END column of a multi-line token in bytes; start columns are
        # characters, so the end is derived from the start and the token text
        e = self.off(t.start) + len(t.string)
        if self.src[self.off(t.start): e] != t.string:
            raise tokenize.TokenError("token text does not match its position", t.start)
        return e


# ------------------------------------------------------------------ evaluation


def evaluate(case, env):
    from rope.base import codeanalyze, simplify, worder

    out = core.Outcome()
    src = case["src"]
    if not srcgen.compiles(src):
        out.notes["generator_invalid"] += 1
        return out
    try:
        tf = TokFacts(src)
    except (tokenize.TokenError, IndentationError, SyntaxError):
        out.notes["untokenizable"] += 1
        return out
    feats = srcgen.features(src)
    for f in feats:
        out.labels[f] += 1
    origin = case["from"].split(":")[0]
    out.labels["from:" + origin] += 1
    skip_pep701 = "fstring_nested_quote" in feats and env.known("pep701_nested_quotes")
    if skip_pep701:
        out.excluded["pep701_nested_quotes"] += 1
        return out

    def vio(clause, detail):
        out.violation("C14:%s:%s" % (clause, origin if origin != "corpus" else "corpus"), detail)

    # (1) ignored regions
    out.evals += 1
    try:
        got = [(a, b) for a, b, _ in simplify.ignored_regions(src)]
    except Exception as e:
        vio("ignored_regions_raised", repr(e))
        got = None
    want = [(a, b) for a, b, _ in tf.spans]
    regions_ok = got == want
    if got is not None and not regions_ok:
        sw, sg = set(want), set(got)
        d = sorted(sw ^ sg)[:3]
        vio("ignored_regions", "; ".join("%s %r %s" % (x, src[x[0]: x[1]][:50], "tokenizer-only" if x in sw else "rope-only") for x in d))

    # (2) real_code
    out.evals += 1
    try:
        rc = simplify.real_code(src)
    except Exception as e:
        vio("real_code_raised", repr(e))
        rc = None
    if rc is not None:
        if len(rc) != len(src):
            vio("real_code_length", "%d != %d" % (len(rc), len(src)))
        elif regions_ok:
            inside = [False] * len(src)
            for a, b, kind in tf.spans:
                for i in range(a, b):
                    inside[i] = True
                seg = rc[a:b]
                if kind == "comment" and seg.strip():
                    vio("real_code_comment_not_blank", repr(seg[:40]))
                    break
                if kind == "str" and (seg[0] != '"' or seg[-1] != '"' or seg[1:-1].strip()):
                    vio("real_code_string_not_blank", "%r -> %r" % (src[a:b][:40], seg[:40]))
                    break
            depth = 0
            check_chars = True
            if any(kind == "fstr" and _bracket_balance(src[a:b]) for a, b, kind in tf.spans):
                out.labels["fstring_unbalanced_brackets"] += 1
                if env.known("fstring_unbalanced_brackets"):
                    out.excluded["fstring_unbalanced_brackets"] += 1
                    check_chars = False
            for i, (c, r) in enumerate(zip(src, rc) if check_chars else ()):
                if inside[i]:
                    continue
                if c in "([{":
                    depth += 1
                elif c in ")]}":
                    depth -= 1
                if c == r:
                    continue
                ok = r in " \n" and (
                    c in "\t;"
                    or (c == "\\" and src[i + 1: i + 2] == "\n")
                    or (c == "\n" and (depth > 0 or src[i - 1: i] == "\\"))
                )
                if not ok:
                    vio("real_code_char", "offset %d: %r became %r (context %r)" % (i, c, r, src[max(0, i - 15): i + 15]))
                    break

    # (3) line index
    out.evals += 1
    la = codeanalyze.SourceLinesAdapter(src)
    nlines = src.count("\n") + 1
    if la.length() != nlines:
        vio("lines_length", "%d != %d" % (la.length(), nlines))
    else:
        line = 1
        for o in range(len(src) + 1):
            n = la.get_line_number(o)
            if n != line or not (la.get_line_start(n) <= o <= la.get_line_end(n)):
                vio("line_of_offset", "offset %d: line %d (expected %d), start %d end %d" % (o, n, line, la.get_line_start(n), la.get_line_end(n)))
                break
            if o < len(src) and src[o] == "\n":
                line += 1
        for n in range(1, nlines + 1):
            s = la.get_line_start(n)
            if la.get_line_number(s) != n or s != tf.starts[n - 1] or la.get_line(n) != src[tf.starts[n - 1]: tf.starts[n] - 1]:
                vio("line_start_inverse", "line %d" % n)
                break

    # (4) logical lines
    for fname, finder in (("caching", codeanalyze.CachingLogicalLineFinder(la)), ("tokenizer", codeanalyze.LogicalLineFinder(la))):
        out.evals += 1
        bad = None
        try:
            lines_ = src.split("\n")
            poisoned = set()
            for (a, b) in tf.logical:
                for i in range(a + 1, b + 1):
                    if _BLOCK_START.match(lines_[i - 1]):
                        poisoned.add(i)
            for (a, b) in tf.logical:
                for L in range(a, b + 1):
                    if fname == "tokenizer" and poisoned and _nearest_block_start_poisoned(lines_, L, poisoned):
                        out.labels["block_keyword_inside_logical_line"] += 1
                        if env.known("block_keyword_inside_logical_line"):
                            out.excluded["block_keyword_inside_logical_line"] += 1
                            continue
                    g = tuple(finder.logical_line_in(L))
                    if g != (a, b):
                        bad = "line %d: rope %s, tokenizer %s: %r" % (L, g, (a, b), "\n".join(src.split("\n")[a - 1: b])[:160])
                        break
                if bad:
                    break
        except Exception as e:
            bad = "raised %r" % (e,)
        if bad:
            vio("logical_line_" + fname, bad)

    # (5) words and dotted primaries
    out.evals += 1
    try:
        w = worder.Worder(src)
        for (a, b, s, in_f) in tf.names:
            for o in range(a, b):
                if w.get_word_at(o) != s or tuple(w.get_word_range(o)) != (a, b):
                    vio("word_at" + ("_in_fstring" if in_f else ""), "offset %d: %r range %s, token %r %s" % (o, w.get_word_at(o), tuple(w.get_word_range(o)), s, (a, b)))
                    raise StopIteration
        tree = ast.parse(src)
        for node in ast.walk(tree):
            if isinstance(node, ast.Attribute) and _pure_chain(node):
                seg = ast.get_source_segment(src, node)
                if seg is None:
                    continue
                end = tf.starts[node.end_lineno - 1] + _col(src, tf, node.end_lineno, node.end_col_offset)
                start = end - len(node.attr)
                if src[start:end] != node.attr:
                    continue
                if _inside_fstring(tf, start):
                    continue
                if not check_chars and ("\n" in seg or start > min(a_ for a_, b_, k_ in tf.spans if k_ == "fstr" and _bracket_balance(src[a_:b_]))):
                    # real_code counts the characters of f-strings as brackets (recorded finding): after an f-string with
                    # unbalanced bracket characters every line break looks like one inside brackets, so a chain continued
                    # on the next line, or any chain further down, is searched across line ends
                    continue
                if re.search(r"[(\[]\s*\.\d", seg):
                    # input feature of a recorded finding: a number written with a leading dot right behind an opening bracket
                    out.labels["leading_dot_number_behind_bracket"] += 1
                    if env.known("leading_dot_number_behind_bracket"):
                        out.excluded["leading_dot_number_behind_bracket"] += 1
                        continue
                for o in range(start, end):
                    p = w.get_primary_at(o)
                    if _norm_chain(p) != _norm_chain(seg):
                        vio("primary_at", "offset %d: %r, attribute chain %r" % (o, p, seg))
                        raise StopIteration
    except StopIteration:
        pass
    except Exception as e:
        vio("worder_raised", repr(e))

    if feats & {"prefixed_string", "fstring"} and "comment" in feats and feats & {"multiline_bracket", "backslash_cont"}:
        out.nontrivial.add("t")
    return out


import re

# the lines rope's LogicalLineFinder may start tokenizing from (its get_block_start pattern)
_BLOCK_START = re.compile(r"^\s*(((def|class|if|elif|except|for|while|with)\s)|((try|else|finally|except)\s*:))")


def _indent(line):
    n = 0
    for ch in line:
        if ch == " ":
            n += 1
        elif ch == "\t":
            n += 8
        else:
            return n
    return 0


def _nearest_block_start_poisoned(lines, L, poisoned):
    """input feature of the known finding: scanning upwards from line L, the nearest line that looks like a block
    start and is not indented deeper than L lies INSIDE a multi-line string or bracket"""
    d = _indent(lines[L - 1])
    for i in range(L, 0, -1):
        if _BLOCK_START.match(lines[i - 1]) and _indent(lines[i - 1]) <= d:
            st_ = lines[i - 1].lstrip()
            if (i > 1 and st_.startswith("if")) or st_.startswith("for"):
                # the "approximate block start" search takes an if/for line for part of a comprehension when a naive
                # bracket count over the next lines (quotes not considered) goes negative, and keeps searching upwards
                bracs = 0
                for j in range(i, min(i + 5, len(lines) + 1)):
                    for c in lines[j - 1]:
                        if c == "#":
                            break
                        if c in "[(":
                            bracs += 1
                        if c in ")]":
                            bracs -= 1
                        if bracs < 0:
                            break
                    if bracs < 0:
                        break
                if bracs < 0:
                    continue
            if i in poisoned:
                return True
            break
    # logical_line_in retries after an IndentationError with the indentation of the line the tokenizer stopped at, i.e.
    # with a smaller limit: a poisoned line further up that is indented less than some line between it and L can still
    # become the block start
    for p_ in poisoned:
        if p_ < L and any(_indent(lines[j - 1]) >= _indent(lines[p_ - 1]) and _indent(lines[j - 1]) < d for j in range(p_ + 1, L + 2) if j <= len(lines) and lines[j - 1].strip()):
            return True
    return False


def _bracket_balance(text):
    return sum(text.count(c) for c in "([{") != sum(text.count(c) for c in ")]}")


def _norm_chain(text):
    """a dotted chain of names with layout (whitespace, comments, continuations) removed"""
    return "".join(re.sub(r"#[^\n]*", "", text).replace("\\", "").split())


def _pure_chain(node):
    """a dotted chain whose links are names, calls and subscripts (f(x)[0].attr), down to a plain name"""
    v = node.value
    while isinstance(v, (ast.Attribute, ast.Call, ast.Subscript)):
        v = v.func if isinstance(v, ast.Call) else v.value
    return isinstance(v, ast.Name)


def _col(src, tf, lineno, col_bytes):
    """ast columns are UTF-8 byte offsets; convert to characters"""
    line = src[tf.starts[lineno - 1]: tf.starts[lineno] - 1]
    return len(line.encode("utf-8")[:col_bytes].decode("utf-8", "ignore"))


def _inside_fstring(tf, off):
    return any(a <= off < b and kind == "fstr" for a, b, kind in tf.spans)
