"""C03 - extract method / variable preserves behaviour or is refused.

G-FUNC modules; regions = every contiguous run of complete statements of every block of the host function
and every compound Load sub-expression; ExtractMethod / ExtractVariable with options cycling over
similar x global_ x kind.  Oracle: refusal => nothing changed; else the module compiles, prints the same
output (same exception class) on the generated calls, and the text before the host definition and after
it (the calls) is untouched.
"""
import ast

from vlib import core, funcgen, runner

PID = "C03"
LEVEL = "exploration"
TECHNIQUE = "metamorphic testing: extract then run (Hypothesis function generator x exhaustive region enumeration), output equality + diff localisation"
RULE = (
    "G-FUNC module (host function or method with nested if/else, bounded loops, loop-carried and one-branch writes, augmented "
    "assignment, comprehensions, global writes, self.attr, early return, break/continue; 2-4 calls with different arguments); "
    "inner loop: all statement runs of all blocks and all compound sub-expressions, options cycle over similar/global_/kind; "
    "non-trivial = accepted extraction of a region that the original run executed and that reads a variable written before it or "
    "writes one read after it (statements) or has >= 2 operands (expressions); distinct by (module hash, region, options)"
    "; loops with else clauses and directly nested loops; a region holding a break/continue whose loop lies outside it must be refused (checked independently of the data-flow exclusions)"
)
ASSUMPTIONS = [
    "expressions are pure and total, so hoisting or re-ordering an evaluation is unobservable; values flowing in/out and control flow are what the output depends on",
    "stdout of the module (results of every call, the global and the attribute) is the observable behaviour",
]
BUDGET = {"quick": (2400, 240), "thorough": (24000, 2700)}


def class_scenarios():
    """a class with a class method, a static method and an instance method whose bodies read cls / self: every run of
    statements of each body is extracted, to each kind the API offers (behavioural oracle; refusal is an answer)"""
    from hypothesis import strategies as st

    @st.composite
    def gen(draw):
        kname = draw(st.sampled_from(["k", "factor"]))
        first = draw(st.sampled_from(["cls", "klass"]))
        src = (
            "class A:\n    %s = 2\n    def __init__(self):\n        self.t = 1\n"
            "    @classmethod\n    def make(%s, a):\n        b = a * %s.%s\n        c = b + %s.%s\n        d = c - a\n        return d + a\n"
            "    @staticmethod\n    def st(a):\n        b = a * 3\n        c = b + 1\n        return c\n"
            "    def inst(self, a):\n        b = a * self.t\n        c = b + type(self).%s\n        return c\n"
            "print(A.make(3), A.st(2), A().inst(4))\nclass B(A):\n    %s = 5\nprint(B.make(1), B().inst(2))\n"
        ) % (kname, first, first, kname, first, kname, kname, kname)
        return {"scenario": "class_methods", "src": src, "host": draw(st.sampled_from(["make", "st", "inst"])), "first": draw(st.integers(0, 2)), "count": draw(st.integers(1, 3)),
                "kind": draw(st.sampled_from([None, None, "classmethod", "staticmethod", "method", "function"])), "global_": draw(st.integers(0, 3)) == 0}

    return gen()


def _evaluate_class_scenario(case):
    from rope.base import exceptions as rex
    from rope.base.project import Project
    from rope.refactor.extract import ExtractMethod

    out = core.Outcome()
    src = case["src"]
    base = runner.run({"main.py": src}, "main.py")
    if base[1]:
        raise core.HarnessError("scenario raises %s\n%s" % (base[1], runner.LAST_TB))
    tree = ast.parse(src)
    fn = next(n for n in ast.walk(tree) if isinstance(n, ast.FunctionDef) and n.name == case["host"])
    body = fn.body
    i = min(case["first"], len(body) - 1)
    j = min(i + case["count"], len(body))
    lines, starts = _offsets(src)
    start = starts[body[i].lineno - 1]
    end = starts[body[j - 1].end_lineno - 1] + len(lines[body[j - 1].end_lineno - 1])
    out.labels["scenario:class_methods:" + case["host"]] += 1
    root = core.fresh_dir("c03c")
    project = Project(root, ropefolder=None)
    try:
        with open(root + "/mod.py", "w") as fh:
            fh.write(src)
        kw = {"global_": case["global_"]}
        if case["kind"]:
            kw["kind"] = case["kind"]
        out.evals += 1
        sub = {"host": case["host"], "region": [start, end], "kw": kw}
        try:
            changes = ExtractMethod(project, project.get_file("mod.py"), start, end).get_changes("helper", **kw)
        except rex.RopeError:
            out.refused += 1
            return out
        except Exception as e:
            out.notes["crashed:%s (see C09)" % type(e).__name__] += 1
            return out
        new = changes.changes[0].new_contents
        where = "extract %r from %s with %s\n%s" % (src[start:end], case["host"], kw, _udiff(src, new))
        try:
            compile(new, "mod.py", "exec")
        except SyntaxError as e:
            out.violation("C03:scenario:class_methods:does_not_compile", "%s\n%s" % (e, where), sub)
            return out
        got = runner.run({"main.py": new}, "main.py")
        if got != base:
            out.violation("C03:scenario:class_methods:behaviour%s" % (":" + got[1] if got[1] else ""), "output %r/%s -> %r/%s\n%s" % (base[0], base[1], got[0], got[1], where), sub)
            return out
        out.nontrivial.add(("cm", case["host"], case["kind"]))
    finally:
        project.close()
        core.rmtree(root)
    return out


def _udiff(a, b):
    import difflib

    return "".join(difflib.unified_diff(a.splitlines(True), b.splitlines(True), "before", "after", n=0))[:1500]


def strategy(tier):
    from hypothesis import strategies as st

    return st.one_of(*([funcgen.modules()] * 15 + [class_scenarios()]))


def describe(case):
    if case.get("scenario"):
        return {k: v for k, v in case.items()}
    return {"src": case["src"][:700], "flags": case["flags"]}


def _offsets(src):
    lines = src.split("\n")
    starts = [0]
    for ln in lines:
        starts.append(starts[-1] + len(ln) + 1)
    return lines, starts


def regions(case):
    """[(kind, start, end, info)] deterministic"""
    src = case["src"]
    tree = ast.parse(src)
    lines, starts = _offsets(src)
    host = None
    for node in ast.walk(tree):
        if isinstance(node, ast.FunctionDef) and node.name == "host":
            host = node

    def off(line, col):
        return starts[line - 1] + col

    out = []
    blocks = []

    def collect(stmts):
        blocks.append(stmts)
        for s in stmts:
            for f in ("body", "orelse", "finalbody"):
                sub = getattr(s, f, None)
                if sub and isinstance(sub, list) and sub and isinstance(sub[0], ast.stmt):
                    collect(sub)

    collect(host.body)
    for stmts in blocks:
        n = len(stmts)
        for i in range(n):
            for j in range(i, n):
                out.append(("stmts", off(stmts[i].lineno, stmts[i].col_offset), off(stmts[j].end_lineno, stmts[j].end_col_offset), {"lines": (stmts[i].lineno, stmts[j].end_lineno)}))
    for node in ast.walk(host):
        if isinstance(node, (ast.BinOp, ast.Call, ast.IfExp, ast.Compare, ast.BoolOp, ast.Attribute)) and isinstance(getattr(node, "ctx", ast.Load()), ast.Load):
            # print(...) is the one impure expression of the fragment: evaluating it once instead of twice (similar=True) or at
            # another moment is observable, and nobody asks to extract it as a value - not part of the domain
            if isinstance(node, ast.Call) and isinstance(node.func, ast.Name) and node.func.id == "print":
                continue
            out.append(("expr", off(node.lineno, node.col_offset), off(node.end_lineno, node.end_col_offset), {"lines": (node.lineno, node.end_lineno), "type": type(node).__name__}))
    return out, host


OPTION_CYCLE = [
    {"similar": False, "global_": False, "kind": None},
    {"similar": True, "global_": False, "kind": None},
    {"similar": False, "global_": True, "kind": None},
    {"similar": True, "global_": True, "kind": None},
    {"similar": False, "global_": False, "kind": "function"},
    {"similar": False, "global_": False, "kind": "method"},
    {"similar": False, "global_": False, "kind": "staticmethod"},
    {"similar": False, "global_": False, "kind": "classmethod"},
]


def hazards(src, host, kind, start, end, rname, opts, starts):
    """input features of the recorded findings for one (region, refactoring, options) request"""
    hz = set()

    def off(n, endp=False):
        return starts[(n.end_lineno if endp else n.lineno) - 1] + (n.end_col_offset if endp else n.col_offset)

    inside = [n for n in ast.walk(host) if hasattr(n, "lineno") and off(n) >= start and off(n, True) <= end]
    inside_ids = {id(n) for n in inside}
    text = src[start:end]
    has_global = any(isinstance(n, ast.Global) for n in ast.walk(host))
    mentions_g = any(isinstance(n, ast.Name) and n.id == "G" for n in inside) or any(isinstance(n, ast.Global) for n in inside)
    contains_decl = any(isinstance(n, ast.Global) for n in inside)
    if has_global and (contains_decl or (rname == "variable" and opts.get("global_") and mentions_g)):
        # what is left of a recorded finding after the repair of its main shape (a global passed as a parameter AND
        # declared global): the region takes the declaration itself along, or a global_=True variable reads the global
        hz.add("extract_with_global_declaration")
    written_in_host = {n.id for n in ast.walk(host) if isinstance(n, ast.Name) and isinstance(n.ctx, ast.Store)}
    attr_written = any(isinstance(n, ast.Attribute) and isinstance(n.ctx, ast.Store) for n in ast.walk(host))
    g_written = has_global
    if opts.get("similar"):
        if kind == "stmts":
            hz.add("similar_statements_ignore_data_flow")
        names = {n.id for n in inside if isinstance(n, ast.Name) and isinstance(n.ctx, ast.Load)}
        if kind == "expr":
            # the recorded gap: ANOTHER textual occurrence of the expression exists and something it reads is (re)assigned at
            # or after the first occurrence (in text order; a loop brings later writes before earlier reads).  Without a
            # second occurrence similar=True has nothing extra to replace.
            region_nodes = [n for n in ast.walk(host) if isinstance(n, ast.expr) and hasattr(n, "lineno") and off(n) == start and off(n, True) == end]
            twins = []
            if region_nodes:
                want_dump = ast.dump(region_nodes[0])
                twins = [n for n in ast.walk(host) if isinstance(n, ast.expr) and hasattr(n, "lineno") and n is not region_nodes[0] and ast.dump(n) == want_dump]
            if twins:
                first = min([start] + [off(n) for n in twins])
                # the definition is placed in front of the statement of the host's own body that holds the earliest
                # occurrence (a whole if / for / while block): writes count from there
                for st_ in host.body:
                    if off(st_) <= first <= off(st_, True):
                        first = off(st_)
                        break
                # a target is bound after its statement's value was evaluated: it counts from the END of that statement
                bound_at = {}
                for st_ in ast.walk(host):
                    if isinstance(st_, (ast.Assign, ast.AugAssign, ast.AnnAssign, ast.For)):
                        tg_ = st_.targets if isinstance(st_, ast.Assign) else [st_.target]
                        for t_ in tg_:
                            for x_ in ast.walk(t_):
                                if isinstance(x_, ast.Name) and isinstance(x_.ctx, ast.Store):
                                    bound_at[id(x_)] = off(st_, True) if not isinstance(st_, ast.For) else off(st_.iter, True)
                later_store = any(isinstance(n, ast.Name) and isinstance(n.ctx, ast.Store) and n.id in names and bound_at.get(id(n), off(n, True)) >= first for n in ast.walk(host))
                in_loop = any(isinstance(lp, (ast.For, ast.While)) and any(off(lp) <= off(t_) and off(t_, True) <= off(lp, True) for t_ in twins + region_nodes) for lp in ast.walk(host))
                if later_store or (in_loop and names & written_in_host) or ("self.t" in text and attr_written) or ("G" in names and g_written):
                    hz.add("similar_ignores_intervening_writes")
        elif (names & written_in_host) or ("self.t" in text and attr_written) or ("G" in names and g_written):
            hz.add("similar_ignores_intervening_writes")
    if rname == "variable":
        for n in ast.walk(host):
            if isinstance(n, ast.While) and off(n.test) <= start and end <= off(n.test, True):
                hz.add("extract_variable_from_loop_condition")
        if opts.get("global_") and any(isinstance(n, ast.Name) and n.id not in ("G", "helper", "sum", "range") for n in inside) or (opts.get("global_") and "self" in text):
            hz.add("extract_variable_global_with_locals")
    for n in ast.walk(host):
        if isinstance(n, (ast.ListComp, ast.SetComp, ast.DictComp, ast.GeneratorExp)):
            if (off(n) <= start and end <= off(n, True)) or (start <= off(n) and off(n, True) <= end):
                hz.add("extract_inside_comprehension")
    if kind == "stmts":
        # block path of every Name inside the region: chain of (compound statement, branch) below the region's top level
        paths = {}

        def walk_block(stmts, path):
            for st_ in stmts:
                if not (off(st_) >= start and off(st_, True) <= end) and not path:
                    # statement outside the region at top level: descend only to find the region's own block
                    for f_ in ("body", "orelse", "finalbody"):
                        sub_ = getattr(st_, f_, None)
                        if isinstance(sub_, list) and sub_ and isinstance(sub_[0], ast.stmt):
                            walk_block(sub_, path)
                    continue
                for f_ in ("body", "orelse", "finalbody"):
                    sub_ = getattr(st_, f_, None)
                    if isinstance(sub_, list) and sub_ and isinstance(sub_[0], ast.stmt):
                        walk_block(sub_, path + ((id(st_), f_),))
                own = [n for n in ast.iter_child_nodes(st_) if not isinstance(n, ast.stmt)]
                for top in own:
                    for n in ast.walk(top):
                        if isinstance(n, ast.Name):
                            paths[id(n)] = path

        walk_block(host.body, ())
        names_in = sorted((n for n in inside if isinstance(n, ast.Name) and id(n) in paths), key=lambda n: off(n))
        aug_targets = {id(n.target) for n in ast.walk(host) if isinstance(n, ast.AugAssign) and isinstance(n.target, ast.Name)}
        for i_, st_n in enumerate(names_in):
            if isinstance(st_n.ctx, ast.Store) and paths[id(st_n)]:
                for ld in names_in[i_ + 1:]:
                    # (the target of an augmented assignment is read before it is written)
                    if ld.id == st_n.id and (isinstance(ld.ctx, ast.Load) or id(ld) in aug_targets) and paths[id(ld)][: len(paths[id(st_n)])] != paths[id(st_n)]:
                        hz.add("read_after_conditional_write_in_region")
        # loop-carried: the region sits in a loop and writes a variable that the loop reads BEFORE the region (i.e. in
        # the next iteration).  rope does return such a variable when the region itself reads it before writing it
        # (its loop-depth rule) or when anything after the region reads it; the recorded gap is the rest.
        aug_targets = {id(a.target) for a in ast.walk(host) if isinstance(a, ast.AugAssign)}
        eval_key = {}
        for st_ in ast.walk(host):
            if isinstance(st_, (ast.Assign, ast.AugAssign, ast.AnnAssign)):
                for t_ in ast.walk(st_.targets[0] if isinstance(st_, ast.Assign) and len(st_.targets) == 1 else getattr(st_, "target", st_)):
                    if isinstance(t_, ast.Name) and isinstance(t_.ctx, ast.Store):
                        eval_key[id(t_)] = off(st_, True)  # a target is bound after the value was evaluated
        key = lambda n: eval_key.get(id(n), off(n))
        stores = [n for n in inside if isinstance(n, ast.Name) and isinstance(n.ctx, ast.Store)]
        for loop in ast.walk(host):
            if isinstance(loop, (ast.For, ast.While)) and off(loop) < start and end <= off(loop, True):
                for v in sorted({n.id for n in stores}):
                    read_before_region = any(
                        isinstance(n, ast.Name) and n.id == v and (isinstance(n.ctx, ast.Load) or id(n) in aug_targets) and id(n) not in inside_ids and off(n) < start
                        for n in ast.walk(loop)
                    )
                    if not read_before_region:
                        continue
                    first_store = min(key(n) for n in stores if n.id == v)
                    read_first_inside = any(
                        isinstance(n, ast.Name) and n.id == v and ((isinstance(n.ctx, ast.Load) and off(n) < first_store) or id(n) in aug_targets) for n in inside
                    )
                    # "read after the region" in rope's sense: walking the text after the region, a read comes before any write
                    occ_ = []
                    for n in ast.walk(host):
                        if isinstance(n, ast.Name) and n.id == v and off(n) >= end:
                            if id(n) in aug_targets or isinstance(n.ctx, ast.Load):
                                occ_.append((off(n), 0))
                            else:
                                occ_.append((key(n), 1))
                    read_after = bool(occ_) and min(occ_)[1] == 0
                    if not read_first_inside and not read_after:
                        hz.add("loop_carried_write")
    # flow-insensitive "written later": rope drops a variable the region writes from the returned values when, walking the
    # text after the region, it meets a write of it before any read.  That is right when the write is a plain statement of
    # a block enclosing the region (it always runs before the later reads); the recorded gap is a first write that sits
    # inside a LATER compound statement or a sibling branch (code that need not run) while the variable is read after the region.
    if kind == "stmts":
        parent, pf = {}, {}
        for p_ in ast.walk(host):
            for c_ in ast.iter_child_nodes(p_):
                parent[id(c_)] = p_
            for f_ in ("body", "orelse", "finalbody"):
                sub_ = getattr(p_, f_, None)
                for c_ in sub_ if isinstance(sub_, list) else []:
                    if isinstance(c_, ast.stmt):
                        pf[id(c_)] = (id(p_), f_)
        region_stmts = [n for n in inside if isinstance(n, ast.stmt) and off(n) == start]
        chain = set()  # the blocks (parent, field) that enclose the region, innermost first
        if region_stmts:
            cur = max(region_stmts, key=lambda n: off(n, True))
            while id(cur) in pf:
                chain.add(pf[id(cur)])
                cur = parent[id(cur)]

        def stmt_of(n):
            while not isinstance(n, ast.stmt):
                n = parent[id(n)]
            return n

        def runs_whenever_region_runs(name_node):
            """the Name is the target of a plain assignment that is a direct statement of a block enclosing the region"""
            st_ = stmt_of(name_node)
            # (id in eval_key: the Name is the assignment's own target, not e.g. a comprehension variable inside its value)
            return id(name_node) in eval_key and isinstance(st_, (ast.Assign, ast.AugAssign, ast.AnnAssign)) and pf.get(id(st_)) in chain

        written = {n.id for n in inside if isinstance(n, ast.Name) and isinstance(n.ctx, ast.Store)}
        later = [n for n in ast.walk(host) if isinstance(n, ast.Name) and off(n) >= end]
        for v in sorted(written):
            occ = []
            for n in later:
                if n.id != v:
                    continue
                if id(n) in aug_targets:
                    occ.append((off(n), 0, "r", n))
                    occ.append((key(n), 1, "w", n))
                else:
                    occ.append((key(n), 1 if isinstance(n.ctx, ast.Store) else 0, "w" if isinstance(n.ctx, ast.Store) else "r", n))
            if not occ or not any(o[2] == "r" for o in occ):
                continue
            first = min(occ, key=lambda o: (o[0], o[1]))
            if first[2] == "w" and not runs_whenever_region_runs(first[3]):
                hz.add("returned_variable_rewritten_later")
            # a variable the region writes only conditionally (and does not read first) is passed IN when some earlier line
            # writes it, so that the old value can be returned; "earlier line writes it" is textual - when that write need
            # not have run (another branch, a loop that ran zero times) the call reads an unbound local
            stores_in = [n for n in inside if isinstance(n, ast.Name) and n.id == v and isinstance(n.ctx, ast.Store)]
            region_top = [n for n in inside if isinstance(n, ast.stmt) and pf.get(id(n)) in chain]
            unconditional = any(id(n) in eval_key and stmt_of(n) in region_top and isinstance(stmt_of(n), (ast.Assign, ast.AugAssign, ast.AnnAssign)) for n in stores_in)
            if unconditional:
                continue
            before = [n for n in ast.walk(host) if isinstance(n, ast.Name) and n.id == v and isinstance(n.ctx, ast.Store) and off(n) < start]
            params = {a.arg for a in host.args.args + host.args.kwonlyargs + host.args.posonlyargs}
            enclosing_for_targets = {
                t.id
                for lp in ast.walk(host)
                if isinstance(lp, ast.For) and off(lp) < start and end <= off(lp, True)
                for t in ast.walk(lp.target)
                if isinstance(t, ast.Name)
            }
            definitely = v in params or v in enclosing_for_targets or any(runs_whenever_region_runs(n) for n in before)
            if before and not definitely:
                hz.add("conditionally_assigned_variable_passed_in")
    return hz


def must_be_refused(host, start, end, starts):
    """the statement region contains a break / continue whose loop lies (partly) outside it: it cannot become a function.
    (a break / continue in the ELSE clause of a loop belongs to the enclosing loop)"""

    def off(n, endp=False):
        return starts[(n.end_lineno if endp else n.lineno) - 1] + (n.end_col_offset if endp else n.col_offset)

    found = []

    def walk(stmts, loop):
        for st_ in stmts:
            if isinstance(st_, (ast.Break, ast.Continue)):
                if start <= off(st_) and off(st_, True) <= end and not (loop is not None and start <= off(loop) and off(loop, True) <= end):
                    found.append(st_)
            elif isinstance(st_, (ast.For, ast.While)):
                walk(st_.body, st_)
                walk(st_.orelse, loop)
            elif isinstance(st_, (ast.FunctionDef, ast.ClassDef)):
                continue
            else:
                for f_ in ("body", "orelse", "finalbody"):
                    sub_ = getattr(st_, f_, None)
                    if isinstance(sub_, list):
                        walk(sub_, loop)

    walk(host.body, None)
    return bool(found)


def evaluate(case, env):
    if case.get("scenario") == "class_methods":
        return _evaluate_class_scenario(case)
    from rope.base import exceptions as rex
    from rope.base.project import Project
    from rope.refactor.extract import ExtractMethod, ExtractVariable

    out = core.Outcome()
    src = case["src"]
    for f in case["flags"]:
        out.labels["flag:" + f] += 1
    executed = set()

    def prof(frame, event, arg):
        return None

    base = runner.run({"main.py": src}, "main.py", collect_lines=executed)
    if base[1] not in ("",):
        raise core.HarnessError("generated module raises %s\n%s" % (base[1], runner.LAST_TB))
    regs, host = regions(case)
    # expression regions whose code occurs a second time in the MODULE (host or a sibling definition) are what similar=True is
    # about: they are always kept, and asked once more as ExtractMethod / ExtractVariable with similar=True
    tree_all = ast.parse(src)
    dumps = {}
    for n_ in ast.walk(tree_all):
        if isinstance(n_, (ast.BinOp, ast.Call, ast.Compare, ast.BoolOp, ast.IfExp)):
            dumps[ast.dump(n_)] = dumps.get(ast.dump(n_), 0) + 1
    lines0, starts0 = _offsets(src)
    twin_regs = []
    for n_ in ast.walk(host):
        if isinstance(n_, (ast.BinOp, ast.Call, ast.Compare, ast.BoolOp, ast.IfExp)) and dumps.get(ast.dump(n_), 0) >= 2:
            if isinstance(n_, ast.Call) and isinstance(n_.func, ast.Name) and n_.func.id == "print":
                continue
            twin_regs.append(("expr", starts0[n_.lineno - 1] + n_.col_offset, starts0[n_.end_lineno - 1] + n_.end_col_offset, {"twin": True, "lines": (n_.lineno, n_.end_lineno), "type": type(n_).__name__}))
    if len(regs) > 60:
        step = -(-len(regs) // 60)
        regs = regs[::step]
    forced = {}
    for k_, tr in enumerate(twin_regs[:8]):
        forced[len(regs)] = ("method" if k_ % 2 == 0 else "variable", {"similar": True, "global_": False, "kind": None})
        regs.append(tr)
    lines, starts_ = _offsets(src)
    head = "\n".join(lines[: (host.lineno - 1) - (2 if case["method"] else 0)])
    if case["method"]:
        # the class header and __init__ precede the host; the prefix that must stay is everything before "class K:"
        head = src[: src.index("class K:")]
    tail = src[src.index("\n", _end_offset(src, host)) + 1:] if False else "\n".join(lines[host.end_lineno:])
    root = core.fresh_dir("c03")
    project = Project(root, ropefolder=None)
    try:
        path = root + "/mod.py"
        with open(path, "w", newline="") as fh:
            fh.write(src)
        res = project.get_file("mod.py")
        for idx, (kind, start, end, info) in enumerate(regs):
            opts = OPTION_CYCLE[idx % len(OPTION_CYCLE)]
            if kind == "expr" and idx % 2:
                refac, rname = ExtractVariable, "variable"
            else:
                refac, rname = ExtractMethod, "method"
            if opts["kind"] in ("method", "staticmethod", "classmethod") and not case["method"]:
                opts = OPTION_CYCLE[idx % 4]
            if idx in forced:
                rname, opts = forced[idx][0], dict(forced[idx][1])
                refac = ExtractVariable if rname == "variable" else ExtractMethod
                out.labels["twin_region_with_similar"] += 1
            if refac is ExtractVariable:
                opts = {"similar": opts["similar"], "global_": opts["global_"]}
            sub = {"kind": kind, "region": [start, end], "what": rname, "opts": opts, "text": src[start:end][:80]}
            only = case.get("only")
            if only is not None:
                if only["region"] != [start, end]:
                    continue
                rname, opts = only["what"], dict(only["opts"])
                refac = ExtractVariable if rname == "variable" else ExtractMethod
                label = "%s:%s" % (rname, kind)
                sub = {"kind": kind, "region": [start, end], "what": rname, "opts": opts, "text": src[start:end][:80]}
            if kind == "stmts" and rname == "method" and must_be_refused(host, start, end, starts_):
                # independent of every data-flow hazard: the only right answer is a refusal
                out.evals += 1
                out.labels["must_refuse:unbound_break_or_continue"] += 1
                try:
                    refac(project, res, start, end).get_changes("extracted", **opts)
                except rex.RopeError:
                    out.refused += 1
                    out.nontrivial.add("must_refuse:%d" % idx)
                except Exception as e:
                    out.violation("C03:internal_error:%s:%s:%s" % (type(e).__name__, rname, kind), "%r on %r with %s" % (e, src[start:end][:60], opts), sub)
                else:
                    out.violation("C03:accepted_region_with_unbound_break_or_continue", "extract method accepted %r with %s" % (src[start:end][:200], opts), sub)
                continue
            skip = False
            for hz in sorted(hazards(src, host, kind, start, end, rname, opts, starts_)):
                out.labels["hazard:" + hz] += 1
                if env.known(hz):
                    out.excluded[hz] += 1
                    skip = True
            if skip:
                continue
            out.evals += 1
            label = "%s:%s" % (rname, kind)
            try:
                changes = refac(project, res, start, end).get_changes("extracted", **opts)
            except rex.RopeError:
                out.refused += 1
                out.labels["refused:" + label] += 1
                continue
            except Exception as e:
                out.notes["crashed:%s (see C09)" % type(e).__name__] += 1
                out.violation("C03:internal_error:%s:%s" % (type(e).__name__, label), "%r on %r with %s" % (e, src[start:end][:60], opts), sub)
                continue
            new = None
            for c in changes.changes:
                if getattr(c, "resource", None) is not None and c.resource.path == "mod.py" and hasattr(c, "new_contents"):
                    new = c.new_contents
            if new is None:
                out.violation("C03:no_change:%s" % label, "accepted but no content change", sub)
                continue
            if _read(path) != src:
                out.violation("C03:get_changes_wrote_to_disk", "", sub)
                break
            try:
                compile(new, "mod.py", "exec", dont_inherit=True)
            except SyntaxError as e:
                out.violation("C03:does_not_compile:%s" % label, "%s: %r -> %s" % (e.msg, src[start:end][:60], _diff(src, new)), sub)
                continue
            got = runner.run({"main.py": new}, "main.py")
            if got != base:
                out.violation(
                    "C03:behaviour:%s%s" % (label, ":" + got[1] if got[1] else ""),
                    "extract %s %r with %s: output %r/%s -> %r/%s\n%s" % (rname, src[start:end][:80], opts, base[0][-60:], base[1], got[0][-60:], got[1], _diff(src, new)),
                    sub,
                )
                continue
            if opts.get("similar"):
                pass  # similar code is replaced module-wide by definition
            elif not new.startswith(head):
                out.violation("C03:text_before_host_changed:%s" % label, _diff(src, new), sub)
                continue
            if not opts.get("similar") and not new.endswith(tail):
                out.violation("C03:text_after_host_changed:%s" % label, _diff(src, new), sub)
                continue
            out.labels["accepted:" + label] += 1
            a, b = info["lines"]
            if any(L in executed for L in range(a, b + 1)):
                out.nontrivial.add((kind, start, end, rname))
    finally:
        project.close()
        core.rmtree(root)
    return out


def _end_offset(src, node):
    return 0


def _read(p):
    with open(p, newline="") as f:
        return f.read()


def _diff(a, b):
    import difflib

    return "".join(list(difflib.unified_diff(a.splitlines(True), b.splitlines(True), "before", "after", n=1))[:40])
