"""C20 - completion and definition lookup are sound at every cursor position.

G-PROJ projects (ground truth for bindings and definition lines) and G-SRC texts (for the no-crash clause).
 (1) code_assist / starting_offset / get_definition_location / find_definition raise nothing but RopeError at
     EVERY offset of the examined module, as is and with the rest of the cursor's line deleted, maxfixes in {1,3},
     later_locals in {True, False};
 (2) every proposal name starts with code[starting_offset:offset];
 (3)+(4) inside identifier tokens of a valid module: undotted proposals are names visible there (R-SCOPE) or
     builtins/keywords/keyword parameters, and every visible name with that prefix is offered (later_locals=True);
 (5) get_definition_location on every identifier token with a known binding gives the defining module and line.
"""
import ast
import builtins
import os
import io
import keyword
import tokenize

from hypothesis import strategies as st

from vlib import core, fsmodel, projgen, rscope, srcgen
from props import c02_occurrences as c02

PID = "C20"
LEVEL = "exploration"
TECHNIQUE = "every-offset robustness sweep + differential soundness/completeness against a reference scope resolver + ground-truth definition lines (Hypothesis program and text generators)"
RULE = (
    "G-PROJ projects: one module per project is swept at EVERY offset (as is / rest of line deleted, maxfixes 1|3, later_locals "
    "T|F), every identifier token gets soundness+completeness of undotted completion (each prefix length) and a definition "
    "lookup compared with the generator's definition line; G-SRC texts: no-crash sweep at every offset; non-trivial = offset with a "
    "non-empty prefix and >= 1 proposal, or a definition lookup on a token whose binding lives in another module; distinct by "
    "(case hash, offset, variant)"
    "; texts include regular block structures with comments at drawn indentations; completeness is also asked with later_locals=False for names imported above the cursor"
    "; a scenario family with definition lines known by construction: keyword arguments of calls to functions, methods, constructors and callable instances (classes with __init__ and __call__), forward references in source order, asked through get_definition_location and find_definition"
)
ASSUMPTIONS = [
    "definition line conventions: imports are transparent (a from-imported or dotted name leads to the def/class/first assignment "
    "in the defining module), a module or module alias leads to line 1 of the module file, a parameter to its def line, a variable "
    "to its first assignment, an attribute to its first assignment in the defining class",
    "completeness is asked with later_locals=True (the documented 'all locals of the function' mode)",
]
BUDGET = {"quick": (340, 240), "thorough": (7500, 2700)}


@st.composite
def block_texts(draw):
    """regular modules built from try / if / for / with blocks with comments and blank lines at drawn indentations between
    the clauses - what the syntax fixer has to cope with when the line at the cursor is incomplete"""
    def comment(ind):
        k = draw(st.integers(0, 3))
        return {0: "", 1: " " * ind + "# note\n", 2: "# note at column 0\n", 3: " " * draw(st.integers(1, max(1, ind))) + "# half indented\n"}[k]

    out = ["import os\n", "text = 'abc'\n"]
    depth = draw(st.integers(0, 2))
    ind = 0
    for d in range(depth):
        out.append(" " * ind + draw(st.sampled_from(["def f%d(arg):\n" % d, "if text:\n", "for item in text:\n", "class K%d:\n" % d])))
        ind += 4
    kind = draw(st.sampled_from(["try_except", "try_finally", "try_except_finally", "if_else", "with"]))
    body = " " * (ind + 4) + "shout = text.upper()\n" + " " * (ind + 4) + "value = os.sep\n"
    if kind.startswith("try"):
        out.append(" " * ind + "try:\n" + body + comment(ind))
        if "except" in kind:
            out.append(" " * ind + draw(st.sampled_from(["except ValueError:\n", "except (KeyError, OSError) as err:\n", "except:\n"])) + " " * (ind + 4) + "shout = text\n" + comment(ind))
        if "finally" in kind:
            out.append(" " * ind + "finally:\n" + " " * (ind + 4) + "value = text\n")
    elif kind == "if_else":
        out.append(" " * ind + "if text:\n" + body + comment(ind) + " " * ind + "else:\n" + " " * (ind + 4) + "shout = text\n")
    else:
        out.append(" " * ind + "with open(text) as fh:\n" + body + comment(ind))
    out.append(" " * ind + "last = text\n")
    if ind:
        out.append("done = text\n")
    return "".join(out)


@st.composite
def def_scenarios(draw):
    """small modules where "where is this name defined" has an answer known by construction and a non-obvious route:
    keyword arguments of calls to functions, methods, constructors and callable instances (a class with both __init__ and
    __call__, possibly with equally named parameters), and forward references in source order (a function reading a
    module constant assigned further down, a method calling a method defined later, also through another module)"""
    pn = draw(st.sampled_from(["offset", "scale", "mode"]))
    qn = draw(st.sampled_from(["limit", "width"]))
    has_init = draw(st.booleans())
    init_same = draw(st.booleans())
    call_first = draw(st.booleans())
    lines, queries = [], []  # queries: (marker text, occurrence index, expected line number or marker of the line)

    def add(text):
        lines.append(text)
        return len(lines)

    add("import os")
    l_early = add("def early(value, %s=0):" % qn)
    add("    return value + LATE + %s + helper_late(value)" % qn)
    cls_parts = []
    if has_init:
        cls_parts.append(("init", ["    def __init__(self, factor, %s=0):" % (pn if init_same else qn), "        self.factor = factor"]))
    cls_parts.append(("call", ["    def __call__(self, value, %s=0):" % pn, "        return value + %s + self.later(value)" % pn]))
    if not call_first:
        cls_parts.reverse() if draw(st.booleans()) else None
    add("class Scaler:")
    where = {}
    for tag, body in cls_parts:
        where[tag] = add(body[0])
        for b in body[1:]:
            add(b)
    where["meth"] = add("    def meth(self, value, %s=1):" % qn)
    add("        return self.later(value) + %s" % qn)
    where["later"] = add("    def later(self, value):")
    add("        return value + LATE")
    l_late = add("LATE = 5")
    l_helper = add("def helper_late(value):")
    add("    return value")
    ctor_kw = (pn if init_same else qn) if has_init else None
    add("inst = Scaler(2%s)" % (", %s=3" % ctor_kw if ctor_kw else "") if has_init else "inst = Scaler()")
    l_use = len(lines)
    add("r1 = inst(10, %s=1)" % pn)
    add("r2 = inst.meth(4, %s=2)" % qn)
    add("r3 = early(1, %s=2)" % qn)
    src = "\n".join(lines) + "\n"
    exp = []

    def q(line_no, text, name, want):
        col = lines[line_no - 1].index(text) + text.index(name)
        off = sum(len(l) + 1 for l in lines[: line_no - 1]) + col
        exp.append([off, name, want])

    q(l_use + 1, "%s=1" % pn, pn, where["call"])
    q(l_use + 2, "%s=2" % qn, qn, where["meth"])
    q(l_use + 3, "%s=2" % qn, qn, l_early)
    if ctor_kw:
        q(l_use, "%s=3" % ctor_kw, ctor_kw, where["init"])
    q(l_early + 1, "LATE", "LATE", l_late)
    q(l_early + 1, "helper_late", "helper_late", l_helper)
    q(where["later"] + 1, "LATE", "LATE", l_late)
    q(where["call"] + 1, "self.later", "later", where["later"])
    q(where["meth"] + 1, "self.later", "later", where["later"])
    other = draw(st.booleans())
    return {"kind": "defs", "src": src, "expect": exp, "other": other}


def _evaluate_defs(case, out):
    from rope.base import exceptions as rex
    from rope.base.project import Project
    from rope.contrib import codeassist, findit

    root = core.fresh_dir("c20d")
    files = {"lib.py": case["src"]}
    if case["other"]:
        files["use.py"] = "import lib\nv = lib.LATE + lib.early(1)\n"
    for p_, t_ in files.items():
        with open(os.path.join(root, p_), "w") as f:
            f.write(t_)
    project = Project(root, ropefolder=None)
    try:
        res = project.get_file("lib.py")
        src = case["src"]
        checks = [("lib.py", src, off, name, ("lib.py", want)) for off, name, want in case["expect"]]
        if case["other"]:
            u = files["use.py"]
            late_line = next(w for _, n, w in case["expect"] if n == "LATE")
            checks.append(("use.py", u, u.index("LATE"), "LATE", ("lib.py", late_line)))
            checks.append(("use.py", u, u.index("early"), "early", ("lib.py", src.split("\n").index(next(l for l in src.split("\n") if l.startswith("def early"))) + 1)))
        for path, text, off, name, want in checks:
            r_ = project.get_file(path)
            for shift in (0, len(name) - 1):
                for api in ("get_definition_location", "find_definition"):
                    out.evals += 1
                    try:
                        if api == "get_definition_location":
                            gres, gline = codeassist.get_definition_location(project, text, off + shift, r_)
                            got = ((gres.path if gres is not None else path) if gline is not None else None, gline)
                        else:
                            loc = findit.find_definition(project, text, off + shift, r_)
                            got = (None, None) if loc is None else ((loc.resource.path if loc.resource is not None else path), loc.lineno)
                    except rex.RopeError:
                        out.refused += 1
                        continue
                    except Exception as e:
                        out.violation("C20:internal_error:%s:%s" % (api, type(e).__name__), "%r at %s:%d" % (e, path, off + shift))
                        return
                    if got != want:
                        out.violation(
                            "C20:scenario:%s:%s" % (api, "keyword" if text[off + len(name):off + len(name) + 1] == "=" else "forward_reference"),
                            "%s:%d %r: expected %s, got %s\n%s" % (path, off + shift, name, want, got, text),
                        )
                        return
        out.nontrivial.add(("defs", case["src"].count("__init__"), case["other"]))
        out.labels["definition_scenarios"] += 1
    finally:
        project.close()
        core.rmtree(root)


def strategy(tier):
    return st.one_of(
        def_scenarios(),
        projgen.projects().map(lambda c: dict(c, kind="proj")),
        projgen.projects().map(lambda c: dict(c, kind="proj")),
        srcgen.grammar(budget=22).map(lambda s: {"kind": "text", "src": s}),
        block_texts().map(lambda s: {"kind": "text", "src": s}),
    )


def describe(case):
    if case["kind"] == "text":
        return {"kind": "text", "src": case["src"][:400]}
    if case["kind"] == "defs":
        return {"kind": "defs", "src": case["src"][:700], "other": case["other"]}
    return c02.describe(case)


BUILTINS = set(dir(builtins))


def _c08_hazard(src):
    from props import c08_patchedast as c08

    feats = srcgen.features(src)
    return bool(feats & (set(c08.FEATURE_PREDICATES) | {"starred", "slice_empty_step", "annotations", "class_kw", "fstring_nested_quote", "lambda"}))


def _c14_hazard(src):
    """a line inside a multi-line string/bracket looks like a block start (recorded C14 finding of LogicalLineFinder)"""
    from props import c14_textview as c14

    try:
        tf = c14.TokFacts(src)
    except Exception:
        return False
    lines = src.split("\n")
    return any(c14._BLOCK_START.match(lines[i - 1]) for (a, b) in tf.logical for i in range(a + 1, b + 1))


def _sweep(out, project, res, src, label, stride=1, skip_definition=False):
    """clause (1) and (2) at every offset"""
    from rope.base import exceptions as rex
    from rope.contrib import codeassist, findit

    for off in range(0, len(src) + 1, stride):
        for variant in ("whole", "trunc"):
            if variant == "trunc":
                if off % 3:
                    continue
                eol = src.find("\n", off)
                code = src[:off] + src[eol if eol >= 0 else len(src):]
            else:
                code = src
            maxfixes = 1 if off % 2 else 3
            later = bool((off // 2) % 2)
            out.evals += 1
            repaired = False
            try:
                props = codeassist.code_assist(project, code, off, res, maxfixes=maxfixes, later_locals=later)
                repaired = True
                so = codeassist.starting_offset(code, off)
                pre = code[so:off]
                bad = [p.name for p in props if not p.name.startswith(pre)]
                if bad:
                    out.violation("C20:prefix:%s" % label, "offset %d (%s): prefix %r, proposals %s" % (off, variant, pre, bad[:4]), {"off": off, "variant": variant})
                if pre and props:
                    out.nontrivial.add((off, variant))
            except rex.RopeError:
                out.refused += 1
            except RecursionError:
                out.notes["recursion"] += 1
            except Exception as e:
                out.violation(
                    "C20:code_assist_raised:%s:%s:%s" % (type(e).__name__, variant, label),
                    "offset %d (%s, maxfixes=%d): %r near %r" % (off, variant, maxfixes, e, code[max(0, off - 30): off + 10]),
                    {"off": off, "variant": variant},
                )
            if variant == "trunc" and repaired and not skip_definition and not srcgen.compiles(code):
                # both entry points repair the text with the same fixer and the same maxfixes: where completion could repair
                # the incomplete line, go-to-definition cannot call the module unrepairable
                out.evals += 1
                try:
                    codeassist.get_definition_location(project, code, off, res, maxfixes=maxfixes)
                except rex.ModuleSyntaxError as e:
                    out.violation(
                        "C20:definition_lookup_gives_up_where_completion_repaired:%s" % label,
                        "offset %d (maxfixes=%d): %r near %r" % (off, maxfixes, e, code[max(0, off - 40): off + 20]),
                        {"off": off, "variant": variant},
                    )
                except rex.RopeError:
                    out.refused += 1
                except RecursionError:
                    out.notes["recursion"] += 1
                except Exception as e:
                    out.violation("C20:get_definition_location_raised:%s:%s" % (type(e).__name__, label), "offset %d (trunc): %r near %r" % (off, e, code[max(0, off - 30): off + 10]), {"off": off})
            if variant == "whole" and not skip_definition:
                for fname, fn in (("get_definition_location", lambda: codeassist.get_definition_location(project, code, off, res, maxfixes=maxfixes)),
                                  ("find_definition", lambda: findit.find_definition(project, code, off, res, maxfixes=maxfixes))):
                    try:
                        fn()
                    except rex.RopeError:
                        out.refused += 1
                    except RecursionError:
                        out.notes["recursion"] += 1
                    except Exception as e:
                        out.violation(
                            "C20:%s_raised:%s:%s" % (fname, type(e).__name__, label),
                            "offset %d: %r near %r" % (off, e, code[max(0, off - 30): off + 10]),
                            {"off": off},
                        )


def _offsets(src):
    lines = src.split("\n")
    starts = [0]
    for ln in lines:
        starts.append(starts[-1] + len(ln) + 1)
    return lines, starts


def _completion_check(out, project, res, src, env, member_names=frozenset()):
    """clauses (3) and (4) for every Name node of the module"""
    from rope.base import exceptions as rex
    from rope.contrib import codeassist

    tree = ast.parse(src)
    root = rscope.build(tree)
    lines, starts = _offsets(src)
    seen = set()
    imported_at = {}
    for st_ in tree.body:
        if isinstance(st_, (ast.Import, ast.ImportFrom)):
            for al_ in st_.names:
                if al_.name != "*":
                    imported_at.setdefault(al_.asname or al_.name.split(".")[0], st_.end_lineno)
    header_names = set()
    comp_targets_by_line = {}
    for n in ast.walk(tree):
        if isinstance(n, ast.ClassDef):
            for part in n.bases + [k.value for k in n.keywords]:
                for x in ast.walk(part):
                    if isinstance(x, ast.Name):
                        header_names.add(id(x))
        elif isinstance(n, ast.comprehension):
            for x in ast.walk(n.target):
                if isinstance(x, ast.Name):
                    for ln in range(n.target.lineno, (n.iter.end_lineno or n.target.lineno) + 1):
                        comp_targets_by_line.setdefault(ln, set()).add(x.id)
    for node, scope in root.all_names:
        if id(node) in header_names:
            out.labels["name_in_class_header"] += 1
            if env.known("class_header_completed_in_class_scope"):
                out.excluded["class_header_completed_in_class_scope"] += 1
                continue
        line = lines[node.lineno - 1]
        start = starts[node.lineno - 1] + len(line.encode("utf-8")[: node.col_offset].decode("utf-8"))
        name = node.id
        if src[start: start + len(name)] != name:
            continue
        sc = scope
        in_comp = False
        while sc is not None:
            if sc.kind in ("comp", "lambda"):
                in_comp = True
            sc = sc.parent
        if in_comp:
            continue  # comprehension / lambda scopes: recorded C15 findings
        visible = rscope.visible_names(scope)
        for k in (1, len(name)):
            key = (scope.start, scope.kind, name[:k])
            if key in seen:
                continue
            seen.add(key)
            off = start + k
            out.evals += 1
            try:
                props = codeassist.code_assist(project, src, off, res, later_locals=True)
            except rex.RopeError:
                out.refused += 1
                continue
            except Exception:
                continue  # clause (1) reports it
            pre = name[:k]
            offered = {p.name for p in props if getattr(p, "scope", "") != "parameter_keyword"}
            offered_plain = {n for n in offered if not n.endswith("=")}
            want = {v for v in visible if v.startswith(pre)}
            missing = want - offered_plain
            unsound = {n for n in offered_plain if n not in visible and n not in BUILTINS and not keyword.iskeyword(n) and not keyword.issoftkeyword(n)}
            leak = unsound & comp_targets_by_line.get(node.lineno, set())
            if leak:
                out.labels["comprehension_variable_on_same_line"] += 1
                if env.known("comprehension_variable_leaks_on_its_line"):
                    out.excluded["comprehension_variable_leaks_on_its_line"] += 1
                    unsound -= leak
            if unsound and scope.kind == "class":
                from props.c15_scopes import _self_attrs

                inst = unsound & (_self_attrs(scope.node) | member_names)
                if inst:
                    out.labels["instance_attr_offered_in_class_body"] += 1
                    if env.known("instance_attribute_offered_in_class_body"):
                        out.excluded["instance_attribute_offered_in_class_body"] += 1
                        unsound -= inst
            where = "%s offset %d (prefix %r in %s %r, line %d)" % (res.path, off, pre, scope.kind, scope.name, node.lineno)
            if missing:
                out.violation("C20:incomplete:%s" % scope.kind, "%s: visible but not offered %s" % (where, sorted(missing)[:5]), {"off": off})
            # later_locals=False only hides names defined BELOW the cursor: a name imported at the top of the module is
            # defined above it wherever the imported object's own definition sits in its module
            early = {n_ for n_, ln_ in imported_at.items() if ln_ < node.lineno and n_.startswith(pre) and n_ in visible and rscope.resolve(scope, n_) is root}
            if early and not missing:
                out.evals += 1
                try:
                    props_e = codeassist.code_assist(project, src, off, res, later_locals=False)
                    miss_e = early - {p.name for p in props_e}
                    if miss_e:
                        out.violation("C20:incomplete_without_later_locals:%s" % scope.kind, "%s: imported above the cursor but not offered with later_locals=False %s" % (where, sorted(miss_e)[:5]), {"off": off})
                except rex.RopeError:
                    out.refused += 1
                except Exception:
                    pass
            if unsound:
                out.violation("C20:unsound:%s" % scope.kind, "%s: offered but not referable %s" % (where, sorted(unsound)[:5]), {"off": off})
            if props:
                out.nontrivial.add(("c", off))


def _definition_check(out, case, project, env):
    from rope.base import exceptions as rex
    from rope.contrib import codeassist

    by = c02.class_tokens(case)
    defs = {}
    for bid, ts in by.items():
        d = [t for t in ts if t[4] in ("def", "alias_def")]
        if d:
            defs[bid] = (d[0][0], d[0][5])
    for m_bid, info in case["classes"].items():
        if info["kind"] in ("module", "package"):
            defs[m_bid] = (info["file"], 1)

    def expected(bid):
        info = case["classes"].get(bid)
        if info is None:
            return None
        if info["kind"] in ("alias", "modalias"):
            return expected(info.get("of"))
        return defs.get(bid)

    for bid, ts in sorted(by.items()):
        info = case["classes"].get(bid)
        if info is None:
            continue
        if bid in case.get("header_collision_bids", ()) and env.known("class_header_name_collision"):
            out.excluded["class_header_name_collision"] += 1
            continue
        if bid in case.get("subclass_write_bids", ()) and env.known("attribute_written_through_self_in_subclass"):
            out.excluded["attribute_written_through_self_in_subclass"] += 1
            continue
        exp = expected(bid)
        if exp is None:
            continue
        # input feature of a recorded finding: the defining assignment's value starts on a later line than its target
        dl = case["files"][exp[0]].split("\n")[exp[1] - 1] if exp[0] in case["files"] and exp[1] else ""
        if info["kind"] in ("local", "const", "inst") and dl.rstrip().endswith("= ("):
            out.labels["definition_value_on_next_line"] += 1
            if env.known("definition_line_is_where_the_value_starts"):
                out.excluded["definition_line_is_where_the_value_starts"] += 1
                continue
        for t in ts:
            src = case["files"][t[0]]
            res = project.get_file(t[0])
            out.evals += 1
            try:
                got = codeassist.get_definition_location(project, src, t[1], res)
            except rex.RopeError:
                out.refused += 1
                continue
            except Exception:
                continue  # clause (1)
            gres, gline = got
            gpath = gres.path if gres is not None else None
            if gpath is None and gline is not None:
                gpath = t[0]
            if (gpath, gline) != exp:
                out.violation(
                    "C20:definition:%s:%s" % (info["kind"], t[4]),
                    "%s:%d %r (%s, role %s): expected %s, got %s" % (t[0], t[1], info["name"], info["kind"], t[4], exp, (gpath, gline)),
                    {"bid": bid},
                )
                break
            if exp[0] != t[0]:
                out.nontrivial.add(("d", bid))
            # the other go-to-definition entry point must lead to the same line
            if info["kind"] in ("local", "const", "func", "class", "method", "inst", "cattr"):
                from rope.contrib import findit

                out.evals += 1
                try:
                    loc = findit.find_definition(project, src, t[1], res)
                except rex.RopeError:
                    out.refused += 1
                    continue
                except Exception:
                    continue  # clause (1)
                if loc is None:
                    got2 = (None, None)
                else:
                    got2 = (loc.resource.path if loc.resource is not None else t[0], loc.lineno)
                if got2 != exp and not (loc is None and t[4] == "def"):
                    out.violation(
                        "C20:find_definition:%s:%s" % (info["kind"], t[4]),
                        "%s:%d %r (%s, role %s): expected %s, find_definition gives %s" % (t[0], t[1], info["name"], info["kind"], t[4], exp, got2),
                        {"bid": bid},
                    )
                    break


def evaluate(case, env):
    out = core.Outcome()
    if case["kind"] == "defs":
        _evaluate_defs(case, out)
        return out
    if case["kind"] == "text":
        from rope.base.project import Project

        src = case["src"]
        if not srcgen.compiles(src):
            out.notes["generator_invalid"] += 1
            return out
        root = core.fresh_dir("c20")
        project = Project(root, ropefolder=None)
        try:
            with open(root + "/t.py", "w", encoding="utf-8", newline="") as f:
                f.write(src)
            skip = False
            if _c14_hazard(src):
                out.labels["block_keyword_inside_logical_line"] += 1
                if env.known("block_keyword_inside_logical_line"):
                    out.excluded["block_keyword_inside_logical_line"] += 1
                    return out
            if _c08_hazard(src):
                out.labels["c08_hazard_text"] += 1
                if env.known("definition_lookup_needs_patchedast"):
                    out.excluded["definition_lookup_needs_patchedast"] += 1
                    skip = True
            _sweep(out, project, project.get_file("t.py"), src, "text", stride=1 if len(src) < 400 else 2, skip_definition=skip)
        finally:
            project.close()
            core.rmtree(root)
        return out
    root, project = c02.open_project(case)
    try:
        paths = sorted(case["files"])
        pick = paths[len(case["tokens"]) % len(paths)]
        src = case["files"][pick]
        _sweep(out, project, project.get_file(pick), src, "proj")
        members = {i["name"] for i in case["classes"].values() if i["kind"] in ("cattr", "iattr", "method")}
        for p in paths:
            _completion_check(out, project, project.get_file(p), case["files"][p], env, members)
        _definition_check(out, case, project, env)
    finally:
        project.close()
        core.rmtree(root)
    return out
