import os, sys, io, shutil, tempfile, subprocess, tokenize, keyword, traceback, warnings
warnings.simplefilter("ignore")
from rope.base.project import Project
from rope.base import exceptions as rex

def mkproj(files, **prefs):
    d = tempfile.mkdtemp(prefix="rp_", dir="/tmp/probe")
    for p, s in files.items():
        fp = os.path.join(d, p)
        os.makedirs(os.path.dirname(fp), exist_ok=True)
        with open(fp, "w", newline="") as f: f.write(s)
    return d

def run(d, entry="main.py"):
    r = subprocess.run([sys.executable, "-B", entry], cwd=d, capture_output=True, text=True, timeout=20)
    err = r.stderr.strip().splitlines()[-1] if r.stderr.strip() else ""
    # normalise exception: just type
    return (r.stdout, err.split(":")[0] if err else "", r.returncode)

def readall(d):
    out = {}
    for root, dirs, fs in os.walk(d):
        dirs[:] = [x for x in dirs if x not in ('.ropeproject','__pycache__')]
        for f in fs:
            p = os.path.join(root, f)
            out[os.path.relpath(p, d)] = open(p, newline="").read()
    return out

def ident_tokens(src):
    res = []
    lines = src.splitlines(True)
    starts = [0]
    for l in lines: starts.append(starts[-1]+len(l))
    for t in tokenize.generate_tokens(io.StringIO(src).readline):
        if t.type == tokenize.NAME and not keyword.iskeyword(t.string):
            res.append((starts[t.start[0]-1]+t.start[1], t.string))
    return res
