from common import *
from rope.base import change as ch, libutils
import collections
FILES={"a.py":"def f(x):\n    return x\nv = f(1)\nw = f('s')\n","b.py":"import a\ny=a.f([1])\n"}
d = mkproj(FILES)
pr = Project(d, save_history=True, save_objectdb=True)
cs = ch.ChangeSet("e1"); cs.add_change(ch.ChangeContents(pr.get_file("a.py"), FILES["a.py"]+"# é\n")); pr.do(cs)
cs = ch.ChangeSet("e2"); cs.add_change(ch.CreateFile(pr.root, "c.py")); pr.do(cs)
pr.history.undo()
libutils.analyze_modules(pr)
pr.close()
rf = os.path.join(d, ".ropeproject")
print(os.listdir(rf), {f: os.path.getsize(os.path.join(rf,f)) for f in os.listdir(rf)})
good = {f: open(os.path.join(rf,f),'rb').read() for f in os.listdir(rf)}
pr2 = Project(d, save_history=True, save_objectdb=True)
print("reopen: undo", [c.description for c in pr2.history.undo_list], "redo", [c.description for c in pr2.history.redo_list])
print("objectdb files", list(pr2.pycore.object_info.objectdb.files.keys()))
pr2.close()
res = collections.Counter()
for name in ("history","objectdb"):
    data = good[name]
    for k in range(len(data)):
        open(os.path.join(rf,name),'wb').write(data[:k])
        try:
            p = Project(d, save_history=True, save_objectdb=True)
            p.history.undo_list
            p.get_pymodule(p.get_resource("a.py")).get_attributes()
            res[name,'ok']+=1
        except Exception as e:
            res[name,type(e).__name__]+=1
    open(os.path.join(rf,name),'wb').write(data)
print(res)
shutil.rmtree(d)
