import sys, io, importlib.abc, importlib.util, contextlib, time
class DictFinder(importlib.abc.MetaPathFinder, importlib.abc.Loader):
    def __init__(self, files): self.files = files
    def _locate(self, fullname):
        base = fullname.replace(".", "/")
        if base + "/__init__.py" in self.files: return base + "/__init__.py", True
        if base + ".py" in self.files: return base + ".py", False
        # namespace-ish folder without __init__: treat as package if any file under it
        if any(p.startswith(base + "/") for p in self.files): return None, True
        return None, None
    def find_spec(self, fullname, path=None, target=None):
        p, ispkg = self._locate(fullname)
        if ispkg is None: return None
        spec = importlib.util.spec_from_loader(fullname, self, origin=p or fullname, is_package=ispkg)
        return spec
    def create_module(self, spec): return None
    def exec_module(self, module):
        p, ispkg = self._locate(module.__name__)
        if p is None: return
        src = self.files[p]
        code = compile(src, p, "exec", dont_inherit=True)
        exec(code, module.__dict__)
def run(files, entry="main.py"):
    finder = DictFinder(files)
    before = set(sys.modules)
    sys.meta_path.insert(0, finder)
    out = io.StringIO(); err = ""
    try:
        with contextlib.redirect_stdout(out):
            try:
                g = {"__name__": "__main__", "__file__": entry}
                exec(compile(files[entry], entry, "exec", dont_inherit=True), g)
            except BaseException as e:
                err = type(e).__name__
    finally:
        sys.meta_path.remove(finder)
        for m in set(sys.modules) - before: del sys.modules[m]
    return out.getvalue(), err
exec(open('p01.py').read().split("base = mkproj")[0].split("from rope.refactor.rename import Rename")[1].replace("from common import *",""))
t=time.time()
for i in range(200): r = run(FILES)
print(r, (time.time()-t)/200*1000, "ms/run")
F2 = dict(FILES); F2["pkg/sub.py"] = "from . import nothing\n"
print(run(F2))
F3 = dict(FILES); F3["pkg/rel.py"]="from .sub import deep\nfrom .. import mod_a\n"; F3["main.py"]="import pkg.rel\nprint(pkg.rel.deep(1))\n"
print(run(F3))
