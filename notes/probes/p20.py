from common import *
from rope.contrib import codeassist
import collections
exec(open('p01.py').read().split("base = mkproj")[0].split("from rope.refactor.rename import Rename")[1])
d = mkproj(FILES); pr = Project(d, ropefolder=None)
stats = collections.Counter(); ex = {}
for path, src in FILES.items():
    res = pr.get_resource(path)
    for off in range(len(src)+1):
        for variant in ("whole","trunc"):
            code = src if variant=="whole" else src[:off] + src[src.find("\n", off) if src.find("\n", off)>=0 else len(src):]
            try:
                props = codeassist.code_assist(pr, code, off, res)
                so = codeassist.starting_offset(code, off)
                pre = code[so:off]
                if not all(p.name.startswith(pre) for p in props): stats[variant,'PREFIX']+=1; ex.setdefault('prefix',(path,off,pre,[p.name for p in props][:5]))
                else: stats[variant,'ok']+=1
            except rex.RopeError as e:
                stats[variant,'rope:'+type(e).__name__]+=1; ex.setdefault((variant,type(e).__name__),(path,off,repr(code[max(0,off-25):off])))
            except Exception as e:
                stats[variant,'CRASH:'+type(e).__name__]+=1; ex.setdefault((variant,'crash',type(e).__name__),(path,off,repr(code[max(0,off-25):off]),str(e)[:60]))
        try:
            codeassist.get_definition_location(pr, src, off, res)
            stats['defloc','ok']+=1
        except rex.RopeError as e: stats['defloc','rope:'+type(e).__name__]+=1; ex.setdefault(('defloc',type(e).__name__),(path,off,repr(src[max(0,off-25):off+5])))
        except Exception as e: stats['defloc','CRASH:'+type(e).__name__]+=1; ex.setdefault(('defloc','crash',type(e).__name__),(path,off,repr(src[max(0,off-25):off+5]),str(e)[:60]))
for k,v in sorted(stats.items()): print(k,v)
for k,v in ex.items(): print(k,v)
pr.close(); shutil.rmtree(d)
