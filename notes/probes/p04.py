from common import *
from rope.refactor import inline, change_signature as cs
import collections, itertools
FILES = {
"lib.py": '''import helper
BASE = 10

def add(a, b=2, c=3):
    t = a + b
    return t * c + BASE

def show(v, tag=1):
    print(v, tag)

def calc(n):
    r = helper.twice(n) + BASE
    return r

class Acc:
    def __init__(self, start, step=1):
        self.total = start
        self.step = step
    def bump(self, k, times=2):
        self.total = self.total + k * times * self.step
        return self.total
''',
"helper.py": '''def twice(x):
    return x * 2
''',
"main.py": '''import lib
from lib import add, show, Acc

def run():
    p = add(1)
    q = add(1, 5)
    r = add(1, c=4)
    s = add(b=7, a=2)
    u = add(1, 2, 3) + add(2)
    show(p)
    show(q, 2)
    show(tag=3, v=r)
    print(s, u, lib.add(3, 3), lib.calc(4))
    a = Acc(5)
    b = Acc(1, step=3)
    print(a.bump(1), a.bump(2, 3), b.bump(k=1), b.bump(times=1, k=2))
    x = 4
    y = x + 1
    print(y * 2, y)
run()
''',
}
base = mkproj(FILES); want = run(base); print(want); shutil.rmtree(base)
stats = collections.Counter(); bad=[]
def attempt(tag, fn):
    d = mkproj(FILES); pr = Project(d, ropefolder=None)
    try:
        try:
            ch = fn(pr); pr.do(ch)
        except rex.RopeError as ex:
            stats[tag[0],'refused']+=1; return
        except Exception as ex:
            stats[tag[0],'CRASH']+=1; bad.append((tag, type(ex).__name__, str(ex)[:80])); return
        got = run(d)
        if got==want: stats[tag[0],'ok']+=1
        else:
            stats[tag[0],'DIFF']+=1; bad.append((tag, got[1] or got[0][:50]))
    finally:
        pr.close(); shutil.rmtree(d)
# inline at every identifier occurrence
for path, src in FILES.items():
    for off, name in ident_tokens(src):
        if name in ('print','self','__init__'): continue
        for opts in ({}, {'remove':False}, {'only_current':True}, {'remove':False,'only_current':True}):
            attempt(('inline', path, name, off, tuple(opts.items())), lambda pr: inline.create_inline(pr, pr.get_resource(path), off).get_changes(**opts))
# change signature
defs = [("lib.py","add",3),("lib.py","show",2),("lib.py","bump",3),("lib.py","Acc",3)]
for path, name, nargs in defs:
    off = FILES[path].index("def "+name)+4 if name!="Acc" else FILES[path].index("class Acc")+6
    chg = [("normalize",[cs.ArgumentNormalizer()])]
    n = nargs
    for perm in itertools.permutations(range(n)):
        if name in ("bump","Acc") and perm[0]!=0: continue
        chg.append(("reorder%s"%(perm,), [cs.ArgumentReorderer(list(perm))]))
    for i in range(n+1):
        chg.append(("add%d"%i, [cs.ArgumentAdder(i, "newp", "0")]))
        chg.append(("addv%d"%i, [cs.ArgumentAdder(i, "newp", None, "9")]))
    for i in range(n):
        chg.append(("inl%d"%i, [cs.ArgumentDefaultInliner(i)]))
    for cname, changers in chg:
        attempt(('sig', path, name, cname), lambda pr: cs.ChangeSignature(pr, pr.get_resource(path), off).get_changes(changers))
for k,v in sorted(stats.items()): print(k,v)
for b in bad:
    if b[0][0]=="sig": print(b)
print(len(bad))
