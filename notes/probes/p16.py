from common import *
import itertools, collections
texts = ["x = 1\ny = 'é'\n", "# c\nx=1", "", "\n", "a\n\nb\n", "s=' '\n", "x='\x0c'\n", "﻿x=1\n", "x = 'a\\rb'\n", "# coding helps\nx='é'\n"]
encs = [None, "utf-8", "latin-1", "cp1252", "utf-16", "utf-8-sig", "iso-8859-15", "ascii", "shift_jis", "utf_8", "UTF-8", "euc-jp", "cp437"]
nls = ["\n", "\r\n", "\r"]
res = collections.Counter(); bad=[]
for t, enc, nl in itertools.product(texts, encs, nls):
    body = t
    if enc: body = "# -*- coding: %s -*-\n" % enc + t
    try:
        data = body.replace("\n", nl).encode(enc or "utf-8")
    except UnicodeEncodeError:
        res['unencodable']+=1; continue
    d = mkproj({}); open(os.path.join(d,"m.py"),"wb").write(data)
    pr = Project(d, ropefolder=None)
    f = pr.get_resource("m.py")
    try:
        txt = f.read()
        # force a write via the change machinery of the same text
        from rope.base import change as ch
        cs = ch.ChangeSet("w"); cs.add_change(ch.ChangeContents(f, txt)); pr.do(cs)
        after = open(os.path.join(d,"m.py"),"rb").read()
        if after == data: res['ok']+=1
        else: res['DIFF']+=1; bad.append((enc, repr(nl), repr(t)[:30], data[:50], after[:50]))
    except Exception as e:
        res[type(e).__name__]+=1; bad.append((enc, repr(nl), repr(t)[:30], type(e).__name__, str(e)[:60]))
    shutil.rmtree(d)
print(res)
seen=set()
for b in bad:
    k=(b[0],b[1])
    if k in seen: continue
    seen.add(k); print(b)
