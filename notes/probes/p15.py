from common import *
from rope.base import libutils
import symtable, ast, builtins
d = mkproj({}); pr = Project(d, ropefolder=None)
SNIPS = {
 "assign": "a = 1\n", "tuple": "a, (b, c) = 1, (2, 3)\n", "star": "a, *b = [1,2]\n", "chain": "a = b = 1\n",
 "aug_mod": "a = 1\na += 1\n", "aug_only_cls": "x = 1\nclass C:\n    x += 1\n", "ann": "a: int = 1\n", "ann_noval": "a: int\n",
 "for": "for i, (j, k) in []:\n    pass\n", "for_else": "for i in []:\n    pass\nelse:\n    e = 1\n",
 "while": "while 0:\n    w = 1\n", "if": "if 1:\n    p = 1\nelif 2:\n    q = 2\nelse:\n    r = 3\n",
 "with": "with open('f') as fh, open('g') as (g1, g2):\n    inw = 1\n", "try": "try:\n    t = 1\nexcept E as ex:\n    h = 1\nelse:\n    el = 1\nfinally:\n    fi = 1\n",
 "import": "import os\nimport os.path\nimport os.path as op\nfrom sys import argv, path as sp\n", "import_in_func": "def f():\n    import os\n    from sys import argv as av\n    return os, av\n",
 "def": "def f(a, b=1, *c, d, e=2, **k):\n    loc = 1\n", "posonly": "def f(a, /, b):\n    pass\n", "kwonly_nostar": "def f(*, d):\n    pass\n",
 "lambda": "f = lambda q, *r: q\n", "class": "class C(B):\n    attr = 1\n    def m(self):\n        self.x = 1\n",
 "nested_def": "def f():\n    def g():\n        gl = 1\n    fl = 2\n", "global": "def f():\n    global gg\n    gg = 1\n", "global_existing": "gg = 0\ndef f():\n    global gg\n    gg = 1\n",
 "nonlocal": "def f():\n    n = 1\n    def g():\n        nonlocal n\n        n = 2\n", "walrus": "if (w := 5):\n    pass\n", "walrus_in_func": "def f():\n    if (w := 5):\n        return w\n",
 "walrus_in_comp": "def f():\n    r = [y for x in [1] if (y := x)]\n    return y\n", "listcomp": "r = [i for i in range(3)]\n", "genexp": "r = (i for i in range(3))\n", "dictcomp": "r = {k: v for k, v in []}\n",
 "nested_comp": "r = [[j for j in i] for i in []]\n", "match": "match v:\n    case [p, *rest]:\n        pass\n    case {'k': mv, **mr}:\n        pass\n    case C(a=ca) as whole:\n        pass\n",
 "del": "a = 1\ndel a\n", "async": "async def f():\n    async for i in x:\n        pass\n    async with y as z:\n        pass\n", "decorated": "@dec\ndef f():\n    pass\n@dec\nclass C:\n    pass\n",
 "type_alias": "type T = int\n", "generic_func": "def f[T](x: T) -> T:\n    return x\n", "except_star": "try:\n    pass\nexcept* E as eg:\n    pass\n",
 "class_in_func": "def f():\n    class L:\n        a = 1\n    return L\n", "cls_nested_use": "class C:\n    a = 1\n    b = [a for _ in range(2)]\n",
}
def comp_only_names(tree):
    pass
def sym_locals(t):
    out=set()
    for s in t.get_symbols():
        n=s.get_name()
        if n.startswith('.'): continue
        if t.get_type()=='module':
            if s.is_assigned() or s.is_imported() or s.is_namespace(): out.add(n)   # bound at module level
        else:
            if s.is_local() and not (s.is_global() or s.is_nonlocal()) and (s.is_assigned() or s.is_parameter() or s.is_imported() or s.is_namespace()): out.add(n)
    return out
def walk_sym(t, path=()):
    yield path+(t.get_name(),), t
    for c in t.get_children():
        yield from walk_sym(c, path+(t.get_name(),))
def walk_rope(sc, path=()):
    name = sc.pyobject.get_name() if sc.parent else 'top'
    yield path+(name,), sc
    for c in sc.get_scopes():
        yield from walk_rope(c, path+(name,))
bi = set(dir(builtins))
for k, src in SNIPS.items():
    try:
        st = symtable.symtable(src, "m", "exec")
    except SyntaxError as e:
        print(k, "SYNTAXERR", e); continue
    try:
        sc = libutils.get_string_scope(pr, src)
        rs = {p: s for p,s in walk_rope(sc)}
    except Exception as e:
        print(k, "ROPE-EXC", type(e).__name__, e); continue
    ss = {p: s for p,s in walk_sym(st)}
    msgs=[]
    for p, s in ss.items():
        want = sym_locals(s)
        # rope
        rp = [q for q in rs if q==p]
        if not rp:
            msgs.append(f"scope {p} [{s.get_type()}] missing in rope (want {sorted(want)})"); continue
        r = rs[p]
        try:
            got = set(r.get_defined_names()) if r.parent is None or r.get_kind()=='Class' else set(r.get_names())
        except Exception as e:
            msgs.append(f"{p}: rope exc {type(e).__name__}"); continue
        if r.get_kind() is None: got = set(r.get_names()) - set(r.parent.get_names())
        if got != want: msgs.append(f"{p}: rope-only {sorted(got-want)} sym-only {sorted(want-got)}")
        if s.get_type()!='module':
            if r.get_start()!=s.get_lineno(): msgs.append(f"{p}: start {r.get_start()} vs {s.get_lineno()}")
    for p in rs:
        if p not in ss: msgs.append(f"rope extra scope {p} kind={rs[p].get_kind()}")
    print(k, "OK" if not msgs else msgs)
pr.close(); shutil.rmtree(d)
