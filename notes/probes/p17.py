from common import *
from rope.refactor.encapsulate_field import EncapsulateField
from rope.refactor.introduce_factory import IntroduceFactory
from rope.refactor.method_object import MethodObject
from rope.refactor.localtofield import LocalToField
from rope.refactor.usefunction import UseFunction
FILES = {
"shapes.py": '''class Box:
    scale = 2
    def __init__(self, w, h=1):
        self.w = w
        self.h = h
    def area(self):
        tmp = self.w * self.h
        res = tmp * Box.scale
        return res
    def grow(self, d):
        self.w += d
        self.h = self.h + d
        return self.w

def double(v):
    return v * 2 + 1

def compute(a, b):
    s = a + b
    t = s * a
    return t - b
''',
"main.py": '''import shapes
from shapes import Box, double

def run():
    b = Box(2, 3)
    c = shapes.Box(4)
    print(b.w, b.h, c.w, b.area(), c.area())
    b.w = 5
    b.h += 2
    c.w, c.h = 7, 8
    print(b.grow(1), b.w * 2 + 1, c.w * 2 + 1, double(3), shapes.compute(2, 3))
    x = 6
    print(x * 2 + 1, (x + 1) * 2 + 1)
run()
''',
}
base = mkproj(FILES); want = run(base); print(want); shutil.rmtree(base)
def attempt(tag, fn):
    d = mkproj(FILES); pr = Project(d, ropefolder=None)
    try:
        try:
            ch = fn(pr); pr.do(ch)
        except rex.RopeError as ex:
            print(tag, "refused", ex); return
        except Exception as ex:
            print(tag, "CRASH", type(ex).__name__, str(ex)[:80]); return
        got = run(d)
        print(tag, "ok" if got==want else ("DIFF", got[1] or got[0]))
        if got!=want: print(ch.get_description()[:1500])
    finally:
        pr.close(); shutil.rmtree(d)
S = FILES["shapes.py"]; M = FILES["main.py"]
for fld in ("w","h","scale"):
    off = S.index("self."+fld)+5 if fld!="scale" else S.index("scale")
    attempt(("encapsulate",fld), lambda pr: EncapsulateField(pr, pr.get_resource("shapes.py"), off).get_changes())
for gf in (False, True):
    attempt(("factory",gf), lambda pr: IntroduceFactory(pr, pr.get_resource("shapes.py"), S.index("Box")).get_changes("create", global_factory=gf))
for fn in ("compute","double","area","grow"):
    attempt(("methodobject",fn), lambda pr: MethodObject(pr, pr.get_resource("shapes.py"), S.index("def "+fn)+4).get_changes("_"+fn.title()))
for v in ("tmp","res"):
    attempt(("localtofield",v), lambda pr: LocalToField(pr, pr.get_resource("shapes.py"), S.index(v)).get_changes())
for fn in ("double","compute"):
    attempt(("usefunction",fn), lambda pr: UseFunction(pr, pr.get_resource("shapes.py"), S.index("def "+fn)+4).get_changes())
