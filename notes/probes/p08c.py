import warnings, ast, textwrap, sys, glob, os, sysconfig, collections; warnings.simplefilter("ignore")
from rope.refactor import patchedast
def norm(n):
    for x in ast.walk(n):
        if hasattr(x,'ctx'): x.ctx = ast.Load()
    return ast.dump(n)
def check(src):
    probs=[]
    try:
        tree = patchedast.get_patched_ast(src, True)
    except Exception as e:
        return [("EXC", type(e).__name__)]
    lines = src.splitlines(True); starts=[0]
    for l in lines: starts.append(starts[-1]+len(l))
    def walk(node, parent):
        if isinstance(node,(ast.expr_context, ast.operator, ast.boolop, ast.unaryop, ast.cmpop)): return
        if not hasattr(node,'region'):
            probs.append(("noregion", type(node).__name__)); 
        else:
            s,e = node.region
            if parent is not None and hasattr(parent,'region'):
                ps,pe = parent.region
                if not (ps<=s and e<=pe): probs.append(("notinside", type(node).__name__, type(parent).__name__))
            if isinstance(node, ast.expr):
                txt = src[s:e]
                try:
                    got = ast.parse("(\n"+txt+"\n)", mode="eval").body
                    if norm(got)!=norm(node): probs.append(("reparse-diff", type(node).__name__, txt[:40]))
                except SyntaxError:
                    probs.append(("reparse-syntax", type(node).__name__, txt[:40]))
                # position agreement
                cs = starts[node.lineno-1]+len(lines[node.lineno-1].encode()[:node.col_offset].decode()); ce = starts[node.end_lineno-1]+len(lines[node.end_lineno-1].encode()[:node.end_col_offset].decode())
                if not (s<=cs and ce<=e): probs.append(("pos-outside", type(node).__name__, txt[:30], src[cs:ce][:30]))
                else:
                    extra = src[s:cs]+src[ce:e]
                    if extra.replace("(","").replace(")","").strip() and '#' not in extra: probs.append(("pos-extra", type(node).__name__, txt[:40]))
        for c in ast.iter_child_nodes(node): walk(c, node)
    walk(tree, None)
    return probs
if __name__=="__main__":
    src_list = eval(open('pmisc.py').read().split("for s in ")[1].split(":\n    try:")[0])
    for s in src_list:
        p = check(s)
        if p: print(repr(s)[:50], p[:3])
    std = sysconfig.get_paths()['stdlib']
    files = sorted(glob.glob(std+'/*.py'))[:150]
    c = collections.Counter(); ex={}
    for f in files:
        try: src=open(f,encoding='utf-8').read(); ast.parse(src)
        except Exception: continue
        if os.path.getsize(f)>60000: continue
        for p in check(src):
            k=p[:2]; c[k]+=1; ex.setdefault(k,(os.path.basename(f),p))
    for k,v in c.most_common(30): print(k,v,ex[k])
