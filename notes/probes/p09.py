from common import *
from rope.refactor.rename import Rename
from rope.contrib import codeassist
from rope.contrib.autoimport.sqlite import AutoImport
from p10 import snap
import contextlib, io
# out-of-project module + ignored folder
root = tempfile.mkdtemp(prefix="rp9_", dir="/tmp/probe")
proj = os.path.join(root,"proj"); sib = os.path.join(root,"sibling"); os.makedirs(proj); os.makedirs(sib); os.makedirs(os.path.join(proj,"build_ignored"))
open(os.path.join(sib,"extmod.py"),"w").write("def ext_fn(a):\n    return a + 1\nEXT = 3\n")
open(os.path.join(proj,"main.py"),"w").write("import extmod\nfrom extmod import ext_fn\nprint(ext_fn(1), extmod.ext_fn(2), extmod.EXT)\n")
open(os.path.join(proj,"other.py"),"w").write("import extmod\ny = extmod.ext_fn(5)\n")
open(os.path.join(proj,"build_ignored","gen.py"),"w").write("import extmod\nz = extmod.ext_fn(5)\n")
pr = Project(proj, ropefolder=None, python_path=[sib], ignored_resources=["build_ignored"])
s0 = (snap(proj), snap(sib))
off = open(os.path.join(proj,"main.py")).read().index("ext_fn")
ch = Rename(pr, pr.get_resource("main.py"), off).get_changes("renamed_fn")
print("pure:", (snap(proj), snap(sib))==s0)
print("changed resources:", sorted(r.path for r in ch.get_changed_resources()))
pr.do(ch)
s2 = (snap(proj), snap(sib))
print("sibling untouched:", s2[1]==s0[1], "proj changed:", sorted(k for k in s2[0] if s2[0][k]!=s0[0].get(k)))
print(open(os.path.join(proj,"main.py")).read())
# rename the out-of-project module itself via its name in import
pr.history.undo()
off = open(os.path.join(proj,"main.py")).read().index("extmod")
try:
    ch = Rename(pr, pr.get_resource("main.py"), off).get_changes("extmod2"); print("module rename changes:", sorted(r.path for r in ch.get_changed_resources())); 
    pr.do(ch); s3=(snap(proj), snap(sib)); print("sibling untouched:", s3[1]==s0[1], sorted(os.listdir(sib)), open(os.path.join(proj,"main.py")).read())
except Exception as e: print("EXC", type(e).__name__, e)
pr.close(); shutil.rmtree(root)

# definition locations table
exec(open('p01.py').read().split("base = mkproj")[0].split("from rope.refactor.rename import Rename")[1])
d = mkproj(FILES); pr = Project(d, ropefolder=None)
src = FILES["main.py"]; res = pr.get_resource("main.py")
seen=set()
for off, name in ident_tokens(src):
    line = src.count("\n",0,off)+1
    try: r, ln = codeassist.get_definition_location(pr, src, off, res)
    except Exception as e: r, ln = type(e).__name__, None
    key=(name, getattr(r,'path',r), ln)
    if key in seen: continue
    seen.add(key); print("L%02d %-8s -> %s:%s" % (line, name, getattr(r,'path',r), ln))
# autoimport staleness
import warnings
ai = AutoImport(pr, observe=True, memory=True); ai.generate_cache()
print("before:", sorted(ai.get_modules("helper")), sorted(ai.get_modules("brandnew")))
open(os.path.join(d,"ext_created.py"),"w").write("def brandnew():\n    pass\n"); pr.validate()
f = pr.root.create_file("rope_created.py"); f.write("def brandnew():\n    pass\n")
pr.get_resource("pkg").move("pkg2")
fresh = AutoImport(Project(d, ropefolder=None), observe=False, memory=True); fresh.generate_cache()
print("warm :", sorted(ai.get_modules("brandnew")), sorted(ai.get_modules("deep")))
print("fresh:", sorted(fresh.get_modules("brandnew")), sorted(fresh.get_modules("deep")))
pr.close(); shutil.rmtree(d)
