from common import *
from rope.base import change as ch
import random, copy
def snap(d):
    out = {}
    for root, dirs, fs in os.walk(d):
        rel = os.path.relpath(root, d)
        dirs[:] = [x for x in dirs if x != '.ropeproject']
        if rel != '.': out[rel+'/'] = 'dir'
        for f in fs: out[os.path.normpath(os.path.join(rel,f))] = open(os.path.join(root,f),'rb').read()
    return out
# pure model ops
def pure_apply(tree, op):
    t = dict(tree)
    for o in op:
        k = o[0]
        if k=='edit': t[o[1]] = o[2].encode()
        elif k=='create': t[o[1]] = b''
        elif k=='mkdir': t[o[1]+'/'] = 'dir'
        elif k=='move':
            if o[1]+'/' in t:
                for p in list(t):
                    if p==o[1]+'/' or p.startswith(o[1]+'/'):
                        t[o[2]+p[len(o[1]):]] = t.pop(p)
            else: t[o[2]] = t.pop(o[1])
    return t
def build(pr, op, n):
    cs = ch.ChangeSet("c%d"%n)
    for o in op:
        if o[0]=='edit': cs.add_change(ch.ChangeContents(pr.get_file(o[1]), o[2]))
        elif o[0]=='create':
            par = os.path.dirname(o[1]); cs.add_change(ch.CreateFile(pr.get_folder(par), os.path.basename(o[1])))
        elif o[0]=='mkdir': cs.add_change(ch.CreateFolder(pr.root, o[1]))
        elif o[0]=='move':
            r = pr.get_resource(o[1]); cs.add_change(ch.MoveResource(r, o[2], exact=True))
    return cs
FILES={"a.py":"x=1\n","b.py":"y=2\n","pk/__init__.py":"","pk/m.py":"z=3\n"}
viol=0
for seed in range(600):
    rnd = random.Random(seed); d = mkproj(FILES); pr = Project(d, ropefolder=None)
    init = snap(d); ops = {}   # id(changeset)-> op
    log=[]
    try:
        for step in range(10):
            tree = snap(d)
            files = sorted(p for p,v in tree.items() if v!='dir')
            dirs = sorted(p[:-1] for p,v in tree.items() if v=='dir')
            kind = rnd.choice(["edit","edit","create","move","mkdir","movedir","multi","undo","redo","sundo","sundo","sredo"])
            op=None
            if kind=="edit": op=[('edit', rnd.choice(files), "v=%d\n"%step)]
            elif kind=="create": op=[('create', (rnd.choice(dirs+[''])+'/n%d.py'%step).lstrip('/'))]
            elif kind=="mkdir": op=[('mkdir','d%d'%step),('create','d%d/i.py'%step),('edit','d%d/i.py'%step,'q=%d\n'%step)]
            elif kind=="move":
                f=rnd.choice(files); op=[('move', f, (os.path.dirname(f)+'/mv%d.py'%step).lstrip('/'))]
            elif kind=="movedir" and dirs:
                f=rnd.choice(dirs); op=[('move', f, 'dm%d'%step)] if '/' not in f else None
            elif kind=="multi" and len(files)>=2:
                a,b=rnd.sample(files,2); op=[('edit',a,'m=%d\n'%step),('edit',b,'mm=%d\n'%step)]
            if op:
                cs = build(pr, op, step); pr.do(cs); ops[id(cs)] = op; log.append(('do',op))
            elif kind=="undo" and pr.history.undo_list: pr.history.undo(); log.append(('undo',))
            elif kind=="redo" and pr.history.redo_list: pr.history.redo(); log.append(('redo',))
            elif kind=="sundo" and pr.history.undo_list:
                c = rnd.choice(pr.history.undo_list); i = pr.history.undo_list.index(c); n=len(pr.history.undo_list)
                r = pr.history.undo(c, drop=rnd.random()<0.3); log.append(('sundo', i, n, len(r)))
            elif kind=="sredo" and pr.history.redo_list:
                c = rnd.choice(pr.history.redo_list); i = pr.history.redo_list.index(c)
                r = pr.history.redo(c); log.append(('sredo', i, len(r)))
            else: continue
            want = init
            for c in pr.history.undo_list: want = pure_apply(want, ops[id(c)])
            got = snap(d)
            if got != want:
                raise AssertionError("fold mismatch: %s" % sorted(set(got.items())^set(want.items()), key=str)[:4])
    except Exception as e:
        viol+=1
        if viol<=8: print(seed, type(e).__name__, str(e)[:160], log[-4:])
    pr.close(); shutil.rmtree(d)
print("violations", viol)
