import sys, os, io, ast, tokenize, glob, sysconfig, collections, warnings
warnings.simplefilter("ignore")
from rope.base import simplify, codeanalyze
from multiprocessing import Pool
std = sysconfig.get_paths()['stdlib']
files = sorted(glob.glob(std+'/**/*.py', recursive=True))
files = [f for f in files if 'site-packages' not in f and os.path.getsize(f) < 100000]
def tok_regions(src):
    lines = src.splitlines(True); starts=[0]
    for l in lines: starts.append(starts[-1]+len(l))
    off = lambda p: starts[p[0]-1]+p[1]
    regs=[]; depth=0; fstart=None
    for t in tokenize.generate_tokens(io.StringIO(src).readline):
        if t.type==tokenize.FSTRING_START:
            if depth==0: fstart=off(t.start)
            depth+=1
        elif t.type==tokenize.FSTRING_END:
            depth-=1
            if depth==0: regs.append((fstart, off(t.end)))
        elif depth==0 and t.type in (tokenize.STRING, tokenize.COMMENT):
            regs.append((off(t.start), off(t.end)))
    return regs
def one(f):
    try:
        src = open(f, encoding='utf-8').read(); ast.parse(src)
        if '\r' in src or '\x0c' in src: return ('skip', f, '')
    except Exception: return ('skip', f, '')
    try:
        want = tok_regions(src)
    except Exception as e: return ('tokfail', f, str(e))
    try:
        got = [(a,b) for a,b,_ in simplify.ignored_regions(src)]
    except Exception as e: return ('exc', f, repr(e)[:80])
    out=[]
    if got != want:
        sw=set(want); sg=set(got)
        d = sorted(sw^sg)[:2]
        out.append(('regions', [(x, src[x[0]:x[1]][:40], 'tok' if x in sw else 'rope') for x in d]))
    # real_code
    rc = simplify.real_code(src)
    if len(rc)!=len(src): out.append(('len', len(rc), len(src)))
    # lines
    la = codeanalyze.SourceLinesAdapter(src)
    # logical lines vs tokenizer
    ll = codeanalyze.CachingLogicalLineFinder(la)
    try:
        want_ll=[]; first=None
        for t in tokenize.generate_tokens(io.StringIO(src).readline):
            if t.type in (tokenize.COMMENT, tokenize.NL, tokenize.INDENT, tokenize.DEDENT, tokenize.ENDMARKER): continue
            if t.type==tokenize.NEWLINE:
                if first is not None: want_ll.append((first, t.start[0])); first=None
                continue
            if first is None: first=t.start[0]
        badl=[]
        for (a,b) in want_ll:
            for L in range(a,b+1):
                g = ll.logical_line_in(L)
                if tuple(g)!=(a,b): badl.append((L,(a,b),tuple(g))); break
        if badl: out.append(('logical', badl[:3]))
    except Exception as e:
        out.append(('llexc', repr(e)[:60]))
    return ('bad' if out else 'ok', f, out)
if __name__=='__main__':
    with Pool(16) as p: res = p.map(one, files, chunksize=4)
    c = collections.Counter(r[0] for r in res); print(c)
    kinds = collections.Counter()
    for r in res:
        if r[0]=='bad':
            for o in r[2]: kinds[o[0]]+=1
    print(kinds)
    n=0
    for r in res:
        if r[0] not in ('ok','skip'):
            n+=1
            if n<=25: print(r[1].replace(std,''), r[2])
