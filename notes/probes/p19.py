from common import *
from rope.base import libutils
from rope.refactor import similarfinder, restructure
import ast, itertools
SRC = '''def f(a, b):
    x = a + b * 2
    y = (a + b) * 2
    z = g(a + b, b * 2) + a + b
    if a + b > 3:
        y = a + b * 2
    w = [a + b for a in range(b * 2)]
    return x + y + z + g(x, y) + g(x, x)
x = 1 + 2 * 2
'''
d = mkproj({"m.py":SRC}); pr = Project(d, ropefolder=None); pm = pr.get_pymodule(pr.get_resource("m.py"))
tree = ast.parse(SRC)
def refmatch(pattern_src, wild):
    pat = ast.parse(pattern_src, mode="eval").body
    out=[]
    def match(p, n, env):
        if isinstance(p, ast.Name) and p.id in wild:
            if not isinstance(n, ast.expr): return False
            if p.id in env: return ast.dump(env[p.id])==ast.dump(n) or strip(env[p.id])==strip(n)
            env[p.id]=n; return True
        if type(p) is not type(n): return False
        for (fa, va), (fb, vb) in zip(ast.iter_fields(p), ast.iter_fields(n)):
            if isinstance(va, ast.expr_context): continue
            if isinstance(va, list):
                if not isinstance(vb, list) or len(va)!=len(vb): return False
                for x,y in zip(va,vb):
                    if isinstance(x, ast.AST):
                        if not match(x,y,env): return False
                    elif x!=y: return False
            elif isinstance(va, ast.AST):
                if not isinstance(vb, ast.AST) or not match(va,vb,env): return False
            else:
                if type(va) is not type(vb) or va!=vb: return False
        return True
    def strip(n):
        m = ast.parse(ast.unparse(n), mode='eval').body
        for x in ast.walk(m):
            if hasattr(x,'ctx'): x.ctx=ast.Load()
        return ast.dump(m)
    for n in ast.walk(tree):
        if isinstance(n, ast.expr):
            env={}
            if match(pat, n, env): out.append((n.lineno, n.col_offset, n.end_lineno, n.end_col_offset))
    return sorted(out)
finder = similarfinder.SimilarFinder(pm)
for pattern in ["${a} + ${b}", "${a} + ${b} * 2", "g(${p}, ${p})", "g(${p}, ${q})", "${a} * 2", "a + b", "${x} + ${x}", "(${a} + ${b}) * 2", "${f}(${p}, ${q})"]:
    got = sorted((m.ast.lineno, m.ast.col_offset, m.ast.end_lineno, m.ast.end_col_offset) for m in finder.get_matches(pattern))
    wild = set(similarfinder.CodeTemplate(pattern).get_names())
    ref = refmatch(similarfinder.CodeTemplate(pattern).substitute({w:w for w in wild}), wild)
    print(pattern, "OK" if got==ref else ("DIFF", "rope-only", sorted(set(got)-set(ref)), "ref-only", sorted(set(ref)-set(got))))
# restructure goal substitution precedence
print(restructure.replace("x = pow(a + b, c)\n", "pow(${p}, ${q})", "${p} ** ${q}"))
print(restructure.replace("x = f(a + b) * 2\ny = (a + b) * 2\n", "${p} * 2", "dbl(${p})"))
print(restructure.replace("x = a + b * 2\n", "${p} * 2", "${p} * 2"))
pr.close(); shutil.rmtree(d)
