from common import *
from p10 import snap
from rope.base import change as ch
import random
def rand_change(pr, rnd, n):
    files = [f for f in pr.get_files()]
    folders = [pr.root] + [pr.get_resource(p) for p in ("pk",) if os.path.isdir(os.path.join(pr.address,p))]
    cs = ch.ChangeSet("c%d"%n)
    kind = rnd.choice(["edit","edit","create","move","mkdir","multi"])
    if kind=="edit" and files:
        f = rnd.choice(files); cs.add_change(ch.ChangeContents(f, "v=%d\n"%n))
    elif kind=="create":
        fo = rnd.choice(folders); cs.add_change(ch.CreateFile(fo, "n%d.py"%n))
    elif kind=="mkdir":
        cs.add_change(ch.CreateFolder(pr.root, "d%d"%n)); cs.add_change(ch.CreateFile(pr.get_folder("d%d"%n), "i.py"))
    elif kind=="move" and files:
        f = rnd.choice(files); cs.add_change(ch.MoveResource(f, (f.parent.path+"/" if f.parent.path else "")+"mv%d.py"%n, exact=True))
    elif kind=="multi" and len(files)>=2:
        a,b = rnd.sample(files,2); cs.add_change(ch.ChangeContents(a,"m=%d\n"%n)); cs.add_change(ch.ChangeContents(b,"mm=%d\n"%n))
    else:
        return None
    return cs
FILES={"a.py":"x=1\n","b.py":"y=2\n","pk/__init__.py":"","pk/m.py":"z=3\n"}
viol=0
for seed in range(300):
    rnd = random.Random(seed)
    d = mkproj(FILES); pr = Project(d, ropefolder=None)
    states=[snap(d)]  # model: stack of states
    redo_states=[]
    log=[]
    try:
        for step in range(12):
            op = rnd.choice(["do","do","undo","redo"])
            if op=="do":
                c = rand_change(pr, rnd, step)
                if c is None: continue
                pr.do(c); log.append(("do",c.description, [str(x) for x in c.changes])); states.append(snap(d)); redo_states=[]
            elif op=="undo":
                if len(states)<=1:
                    try: pr.history.undo(); assert False,"undo on empty accepted"
                    except rex.HistoryError: pass
                    continue
                pr.history.undo(); log.append(("undo",)); redo_states.append(states.pop())
            else:
                if not redo_states:
                    try: pr.history.redo(); assert False
                    except rex.HistoryError: pass
                    continue
                pr.history.redo(); log.append(("redo",)); states.append(redo_states.pop())
            assert snap(d)==states[-1], "state mismatch"
            assert len(pr.history.undo_list)==len(states)-1 and len(pr.history.redo_list)==len(redo_states)
    except Exception as e:
        viol+=1
        if viol<=5: print(seed, type(e).__name__, str(e)[:100], log[-4:])
    shutil.rmtree(d)
print("violations", viol)
