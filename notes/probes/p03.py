from common import *
from rope.refactor.extract import ExtractMethod, ExtractVariable
import ast, collections
SRC = '''def f(a, b):
    x = a + 1
    y = b * 2
    if x > y:
        z = x - y
        x = x + z
    else:
        z = 0
    total = 0
    for i in range(3):
        total = total + i * x
        if total > 5:
            y = y + 1
    print(x, y, z, total)
    w = x * y
    print(w)
    return w + z

class K:
    def __init__(self, n):
        self.n = n
    def m(self, k):
        t = self.n + k
        u = t * 2
        self.n = u
        print(t, u, self.n)
        return u

g = 7
def h(q):
    global g
    r = q + g
    g = r
    print(r, g)
    return r

print(f(1, 2), f(5, 1))
o = K(3)
print(o.m(2), o.n)
print(h(1), g)
'''
FILES={"main.py":SRC}
base = mkproj(FILES); want = run(base); print(want); shutil.rmtree(base)
tree = ast.parse(SRC)
lines = SRC.splitlines(True); starts=[0]
for l in lines: starts.append(starts[-1]+len(l))
def blocks(node):
    for fld in ('body','orelse','finalbody'):
        b = getattr(node, fld, None)
        if isinstance(b, list) and b and isinstance(b[0], ast.stmt):
            yield b
            for s in b: yield from blocks(s)
stats = collections.Counter(); bad=[]
cands=[]
for fn in ast.walk(tree):
    if isinstance(fn, ast.FunctionDef):
        for b in blocks(fn):
            for i in range(len(b)):
                for j in range(i, len(b)):
                    s = starts[b[i].lineno-1]; e = starts[b[j].end_lineno-1]+b[j].end_col_offset
                    cands.append(('stmts', s, e))
        for n in ast.walk(fn):
            if isinstance(n, ast.expr) and not isinstance(getattr(n,'ctx',None), (ast.Store,ast.Del)):
                s = starts[n.lineno-1]+n.col_offset; e = starts[n.end_lineno-1]+n.end_col_offset
                cands.append(('expr', s, e))
for kind, s, e in cands:
    for cls, opts in ((ExtractMethod, {}), (ExtractMethod, {'similar':True}), (ExtractMethod, {'global_':True})) + (((ExtractVariable, {}),) if kind=='expr' else ()):
        d = mkproj(FILES); pr = Project(d, ropefolder=None)
        tag = (kind, cls.__name__, tuple(opts))
        try:
            try:
                ch = cls(pr, pr.get_resource("main.py"), s, e).get_changes("extracted_zz", **opts)
                pr.do(ch)
            except rex.RopeError as ex:
                stats[tag+('refused',)]+=1; continue
            except Exception as ex:
                stats[tag+('CRASH',)]+=1; bad.append((tag, repr(SRC[s:e])[:50], type(ex).__name__, str(ex)[:60])); continue
            got = run(d)
            if got==want: stats[tag+('ok',)]+=1
            else: stats[tag+('DIFF',)]+=1; bad.append((tag, repr(SRC[s:e])[:60], got[1] or got[0][:40]))
        finally:
            pr.close(); shutil.rmtree(d)
for k,v in sorted(stats.items()): print(k, v)
for b in bad[:40]: print(b)
print(len(bad))
