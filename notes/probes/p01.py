from common import *
from rope.refactor.rename import Rename
FILES = {
"main.py": '''import mod_a
from mod_a import helper, Box as B
import pkg.sub as ps
from pkg import sub
from pkg.sub import deep

glob = 3

def outer(p, q=2):
    loc = p + q
    def inner(z):
        return z + loc
    return inner(glob)

class Local(B):
    attr = 5
    def meth(self, k):
        self.val = k + self.attr
        return self.val
    def other(self):
        return self.meth(1) + self.size()

def main():
    print(outer(1), outer(p=2, q=3))
    b = B(4)
    print(b.size(), b.w)
    l = Local(7)
    print(l.meth(2), l.other(), l.val, Local.attr)
    print(helper(glob), mod_a.helper(2), mod_a.CONST)
    print(ps.deep(1), sub.deep(2), deep(3), sub.VALUE)
    print([e * 2 for e in range(3)], sum(e for e in [glob]))
    print(mod_a.use_global())
main()
''',
"mod_a.py": '''CONST = 10
counter = 0

def helper(x):
    return x * CONST

def use_global():
    global counter
    counter = counter + 1
    return counter

class Box:
    def __init__(self, w):
        self.w = w
    def size(self):
        return self.w * 2
''',
"pkg/__init__.py": '',
"pkg/sub.py": '''from mod_a import helper
VALUE = helper(1)
def deep(n):
    return n + VALUE
''',
}
base = mkproj(FILES)
want = run(base)
print("baseline:", want)
import collections
stats = collections.Counter(); bad = []
for path, src in FILES.items():
    for off, name in ident_tokens(src):
        d = mkproj(FILES)
        pr = Project(d, ropefolder=None)
        try:
            try:
                ch = Rename(pr, pr.get_resource(path), off).get_changes("zz_new")
                pr.do(ch)
            except rex.RopeError as e:
                stats['refused:'+type(e).__name__]+=1; continue
            except Exception as e:
                stats['CRASH:'+type(e).__name__]+=1; bad.append((path, off, name, 'crash', repr(e)[:100])); continue
            got = run(d)
            if got == want: stats['ok']+=1
            else:
                stats['DIFF']+=1; bad.append((path, off, name, got[1] or got[0][:60]))
        finally:
            pr.close(); shutil.rmtree(d)
print(stats)
for b in bad: print(b)
shutil.rmtree(base)
