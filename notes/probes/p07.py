from common import *
from rope.refactor.importutils import ImportOrganizer
from rope.refactor import move
from rope.refactor.topackage import ModuleToPackage
from rope.refactor.rename import Rename
import collections, itertools
FILES = {
"main.py": '''"""doc"""
from __future__ import annotations
import os, sys
import mod_a
import mod_a
from mod_a import helper, Box as B, CONST
import pkg.sub as ps
from pkg import sub
from pkg.sub import deep
from pkg.sub import *
import pkg.other
import json
from pkg import reexp

__all__ = ["helper", "main"]

def main():
    print(helper(2), B(1).size(), ps.deep(1), sub.deep(2), deep(3), VALUE, pkg.other.oth(), len(sys.argv) > 0, reexp)
main()
''',
"mod_a.py": '''CONST = 10
def helper(x):
    return x * CONST
class Box:
    def __init__(self, w):
        self.w = w
    def size(self):
        return self.w * 2
''',
"pkg/__init__.py": 'from .sub import VALUE as reexp\n',
"pkg/sub.py": '''from mod_a import helper
from . import other
from .other import oth
VALUE = helper(1)
def deep(n):
    return n + VALUE + oth() + other.oth()
''',
"pkg/other.py": '''import mod_a
def oth():
    return mod_a.CONST
''',
}
base = mkproj(FILES); want = run(base); print(want); shutil.rmtree(base)
stats = collections.Counter(); bad=[]
def attempt(tag, fn, twice=None):
    d = mkproj(FILES); pr = Project(d, ropefolder=None)
    try:
        try:
            ch = fn(pr)
            if ch is None: stats[tag[0],'nochange']+=1; return
            pr.do(ch)
        except rex.RopeError as ex:
            stats[tag[0],'refused']+=1; return
        except Exception as ex:
            stats[tag[0],'CRASH']+=1; bad.append((tag, type(ex).__name__, str(ex)[:80])); return
        got = run(d)
        if got==want: stats[tag[0],'ok']+=1
        else:
            stats[tag[0],'DIFF']+=1; bad.append((tag, got[1] or got[0][:50]))
        if twice:
            ch2 = fn(pr)
            if ch2 is not None: stats[tag[0],'NOT-IDEMPOTENT']+=1; bad.append((tag,'not idempotent', ch2.get_description()[:300]))
    finally:
        pr.close(); shutil.rmtree(d)
for path in FILES:
    for act in ("organize_imports","expand_star_imports","froms_to_imports","relatives_to_absolutes","handle_long_imports"):
        attempt(('imp', act, path), lambda pr: getattr(ImportOrganizer(pr), act)(pr.get_resource(path)), twice=True)
# moves
for path, src in FILES.items():
    for off, name in ident_tokens(src):
        if name in ('print','self','__init__','len','annotations','__all__'): continue
        for dest in ("mod_a.py","pkg/other.py","main.py","pkg/sub.py","pkg"):
            if dest==path: continue
            def f(pr):
                m = move.create_move(pr, pr.get_resource(path), off)
                if isinstance(m, move.MoveMethod): raise rex.RefactoringError("skip")
                return m.get_changes(pr.get_resource(dest))
            attempt(('move', path, name, off, dest), f)
for path in ("mod_a.py","pkg/sub.py","pkg/other.py"):
    attempt(('topackage', path), lambda pr: ModuleToPackage(pr, pr.get_resource(path)).get_changes())
    attempt(('renmod', path), lambda pr: Rename(pr, pr.get_resource(path)).get_changes("renamed_zz"))
    attempt(('movemod', path), lambda pr: move.create_move(pr, pr.get_resource(path)).get_changes(pr.get_resource("pkg") if not path.startswith("pkg") else pr.root))
attempt(('renmod','pkg'), lambda pr: Rename(pr, pr.get_resource("pkg")).get_changes("renamed_zz"))
for k,v in sorted(stats.items()): print(k,v)
seen=collections.Counter()
for b in bad:
    key=(b[0][0], b[0][1] if b[0][0]=='imp' else b[0][2], b[-1] if len(b)==2 else b[1])
    seen[key]+=1
    if seen[key]<=2: print(b)
print(len(bad))
