from common import *
from rope.refactor import restructure
def rs(src, pat, goal):
    d = mkproj({"m.py":src}); pr = Project(d, ropefolder=None)
    ch = restructure.Restructure(pr, pat, goal).get_changes()
    out = ch.changes[0].new_contents if ch.changes else None
    pr.close(); shutil.rmtree(d); return out
print(repr(rs("x = pow(a + b, c)\n", "pow(${p}, ${q})", "${p} ** ${q}")))
print(repr(rs("x = f(a + b) * 2\ny = (a + b) * 2\nz = g(1 * 2) * 2\n", "${p} * 2", "dbl(${p})")))
print(repr(rs("x = a + b * 2\n", "${p} * 2", "${p} * 2")))
print(repr(rs("x = f(a if c else d)\n", "f(${p})", "${p} + 1")))
print(repr(rs("if a:\n    x = 1\nelif b:\n    x = 2\n", "x = ${v}", "y = ${v}\nz = ${v}")))
print(repr(rs("x = f(\n    a,\n    b)\n", "f(${p}, ${q})", "g(${q}, ${p})")))
