import json, os
from hypothesis import given, settings, strategies as st, seed, HealthCheck
from rope.base.serializer import python_to_json, json_to_python
keys_s = st.one_of(st.text(max_size=4), st.sampled_from(["0","12","-1","١٢","²","","$x","v","data","references","items"]))
scalars = st.one_of(st.none(), st.booleans(), st.integers(), st.text(max_size=5))
def hashable(inner): return st.one_of(scalars, st.tuples(inner), st.tuples(inner, inner), st.just(()))
hk = st.recursive(scalars, hashable, max_leaves=4)
vals = st.recursive(scalars, lambda ch: st.one_of(st.lists(ch, max_size=3), st.lists(ch, max_size=3).map(tuple), st.dictionaries(st.one_of(keys_s, hk), ch, max_size=3)), max_leaves=12)
def teq(a,b):
    if type(a) is not type(b): return False
    if isinstance(a,(list,tuple)): return len(a)==len(b) and all(teq(x,y) for x,y in zip(a,b))
    if isinstance(a,dict):
        if len(a)!=len(b): return False
        for k,v in a.items():
            m=[k2 for k2 in b if teq(k,k2)]
            if len(m)!=1 or not teq(v,b[m[0]]): return False
        return True
    return a==b
bad=[]
@seed(1)
@settings(max_examples=20000, database=None, deadline=None, suppress_health_check=list(HealthCheck))
@given(vals, st.sampled_from([1,2]))
def t(x, v):
    try:
        enc = python_to_json(x, v)
    except ValueError as e:
        return
    dec = json.loads(json.dumps(enc))
    back = json_to_python(dec)
    if not teq(back, x) or enc!=dec:
        bad.append((x,v,back))
t()
print(len(bad), bad[:5])
