from common import *
from rope.base import change as ch, fscommands, taskhandle
import hashlib
def snap(d):
    out = {}
    for root, dirs, fs in os.walk(d):
        rel = os.path.relpath(root, d)
        if rel.startswith('.ropeproject'): continue
        dirs[:] = [x for x in dirs if x != '.ropeproject']
        out[rel+'/'] = 'dir'
        for f in fs:
            out[os.path.normpath(os.path.join(rel,f))] = open(os.path.join(root,f),'rb').read()
    return out
class Faulty(fscommands.FileSystemCommands):
    def __init__(self, fail_at): self.n=0; self.fail_at=fail_at
    def _tick(self):
        self.n+=1
        if self.n==self.fail_at: raise OSError("injected")
    def create_file(self,p): self._tick(); super().create_file(p)
    def create_folder(self,p): self._tick(); super().create_folder(p)
    def move(self,a,b): self._tick(); super().move(a,b)
    def remove(self,p): self._tick(); super().remove(p)
    def write(self,p,d): self._tick(); super().write(p,d)
FILES={"a.py":"x=1\n","b.py":"y=2\n","pk/__init__.py":"","pk/m.py":"z=3\n"}
def build(pr):
    cs = ch.ChangeSet("composite")
    cs.add_change(ch.ChangeContents(pr.get_file("a.py"), "x=10\n"))
    cs.add_change(ch.CreateFolder(pr.root, "newdir"))
    cs.add_change(ch.CreateFile(pr.get_folder("newdir"), "f.py"))
    cs.add_change(ch.ChangeContents(pr.get_file("newdir/f.py"), "q=1\n"))
    cs.add_change(ch.MoveResource(pr.get_file("b.py"), "newdir/b.py", exact=True))
    cs.add_change(ch.ChangeContents(pr.get_file("pk/m.py"), "z=30\n"))
    return cs
for fail_at in range(1,8):
    d = mkproj(FILES); pr = Project(d, fscommands=Faulty(fail_at), ropefolder=None)
    before = snap(d); hl = len(pr.history.undo_list)
    try:
        pr.do(build(pr)); print(fail_at, "no error")
    except Exception as e:
        after = snap(d)
        print(fail_at, type(e).__name__, str(e)[:60], "RESTORED" if after==before else "DIFF: %s"%sorted(set(after)^set(before) | {k for k in after if k in before and after[k]!=before[k]}), len(pr.history.undo_list)==hl)
    shutil.rmtree(d)
# interruption via task handle
print("--- stop at job boundaries")
for stop_at in range(1,14):
    d = mkproj(FILES); pr = Project(d, ropefolder=None)
    before = snap(d)
    th = taskhandle.TaskHandle("t")
    cnt=[0]
    def obs():
        cnt[0]+=1
        if cnt[0]==stop_at: th.stop()
    th.add_observer(obs)
    try:
        pr.do(build(pr), task_handle=th); print(stop_at,"no error")
    except Exception as e:
        after = snap(d)
        print(stop_at, type(e).__name__, "RESTORED" if after==before else "DIFF: %s"%sorted(set(after)^set(before) | {k for k in after if k in before and after[k]!=before[k]}), len(pr.history.undo_list))
    shutil.rmtree(d)
