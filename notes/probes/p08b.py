import sys, os, ast, warnings, collections, traceback, glob, sysconfig
warnings.simplefilter("ignore")
from rope.refactor import patchedast
from multiprocessing import Pool
std = sysconfig.get_paths()['stdlib']
files = sorted(glob.glob(std+'/**/*.py', recursive=True))
files = [f for f in files if 'site-packages' not in f and os.path.getsize(f) < 120000]
def one(f):
    try:
        src = open(f, encoding='utf-8').read()
        ast.parse(src)
    except Exception:
        return ('skip', f, '')
    try:
        with warnings.catch_warnings(record=True) as w:
            warnings.simplefilter("always")
            node = patchedast.get_patched_ast(src, True)
        out = patchedast.write_ast(node)
        ww = [str(x.message) for x in w if 'please report' in str(x.message)]
        if out != src: return ('mismatch', f, '')
        if ww: return ('warn', f, ww[0])
        return ('ok', f, '')
    except Exception as e:
        tb = traceback.extract_tb(e.__traceback__)
        return (type(e).__name__, f, str(e)[:120])
if __name__ == '__main__':
    with Pool(16) as p:
        out = p.map(one, files, chunksize=8)
    c = collections.Counter(o[0] for o in out)
    print(len(files), c)
    for o in out:
        if o[0] not in ('ok','skip'): print(o)
