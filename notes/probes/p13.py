from common import *
from rope.base import change as ch, libutils
from rope.contrib import findit
import random, time
FILES={"a.py":"import b\nfrom b import val\nX = b.val + val\ndef fa():\n    return b.fb()\n","b.py":"val = 2\ndef fb():\n    return val\n","pk/__init__.py":"from pk.m import z\n","pk/m.py":"import a\nz = a.X\n"}
def observe(pr):
    out = {}
    out['files'] = sorted(f.path for f in pr.get_files())
    out['pyfiles'] = sorted(f.path for f in pr.get_python_files())
    for name in ("a","b","c","pk","pk.m","pk.n","d"):
        r = pr.find_module(name); out['find:'+name] = r.path if r else None
    for f in sorted(pr.get_python_files(), key=lambda f:f.path):
        try:
            pm = pr.get_pymodule(f)
        except rex.ModuleSyntaxError:
            out['mod:'+f.path]='syntaxerror'; continue
        out['src:'+f.path] = pm.source_code
        attrs = {}
        for n, pn in pm.get_attributes().items():
            try:
                obj = pn.get_object(); loc = pn.get_definition_location()
                attrs[n] = (type(pn).__name__, type(obj).__name__, sorted(obj.get_attributes().keys())[:50] if hasattr(obj,'get_attributes') else None, (loc[0].get_resource().path if loc[0] is not None and loc[0].get_resource() else None, loc[1]))
            except Exception as e:
                attrs[n] = ('EXC', type(e).__name__)
        out['attrs:'+f.path] = attrs
    return out
viol=0; t0=time.time()
for seed in range(150):
    rnd = random.Random(seed); d = mkproj(FILES); pr = Project(d, ropefolder=None); log=[]; n=0
    tick=[1_700_000_000]
    def ext_write(path, content):
        fp=os.path.join(d,path); os.makedirs(os.path.dirname(fp),exist_ok=True); open(fp,'w').write(content); tick[0]+=10; os.utime(fp,(tick[0],tick[0]))
    try:
        for step in range(10):
            n+=1
            if rnd.random()<0.7: observe(pr)  # warm
            op = rnd.choice(["write","ext_write","create","ext_create","move","ext_remove","remove","undo"])
            pyf = sorted(pr.get_python_files(), key=lambda f:f.path)
            newsrc = rnd.choice(["val = %d\n"%n, "import b\nq%d = b.val\n"%n, "def fb():\n    return %d\nval=1\n"%n, "from b import *\n", "class C%d:\n    k = 1\n"%n])
            if op=="write" and pyf:
                f=rnd.choice(pyf); f.write(newsrc); log.append((op,f.path,newsrc))
            elif op=="ext_write" and pyf:
                f=rnd.choice(pyf); ext_write(f.path,newsrc); pr.validate(); log.append((op,f.path,newsrc))
            elif op=="create":
                name=rnd.choice(["c.py","d.py","pk/n.py"])
                if not os.path.exists(os.path.join(d,name)):
                    parent = pr.get_resource(os.path.dirname(name)) if os.path.dirname(name) else pr.root
                    f=parent.create_file(os.path.basename(name)); f.write(newsrc); log.append((op,name,newsrc))
            elif op=="ext_create":
                name=rnd.choice(["c.py","d.py","pk/n.py"])
                if not os.path.exists(os.path.join(d,name)) and os.path.isdir(os.path.join(d,os.path.dirname(name))):
                    ext_write(name,newsrc); pr.validate(); log.append((op,name,newsrc))
            elif op=="move" and pyf:
                f=rnd.choice(pyf); dest=rnd.choice(["c.py","d.py","pk/n.py","b.py"])
                if not os.path.exists(os.path.join(d,dest)) and os.path.isdir(os.path.join(d,os.path.dirname(dest))) and f.name!="__init__.py":
                    f.move(dest); log.append((op,f.path,dest))
            elif op=="ext_remove" and pyf:
                f=rnd.choice(pyf)
                if f.name!="__init__.py": os.remove(f.real_path); pr.validate(); log.append((op,f.path))
            elif op=="remove" and pyf:
                f=rnd.choice(pyf)
                if f.name!="__init__.py": f.remove(); log.append((op,f.path))
            elif op=="undo" and pr.history.undo_list:
                try: pr.history.undo(); log.append((op,))
                except NotImplementedError: log.append(("undo-notimpl",))
            warm = observe(pr)
            fresh_pr = Project(d, ropefolder=None); fresh = observe(fresh_pr); fresh_pr.close()
            if warm!=fresh:
                viol+=1
                ks=[k for k in set(warm)|set(fresh) if warm.get(k)!=fresh.get(k)]
                if viol<=6:
                    print("seed",seed,"step",step,log[-3:]); 
                    for k in ks[:3]:
                        w=warm.get(k); f_=fresh.get(k)
                        if isinstance(w,dict) and isinstance(f_,dict):
                            dk=[x for x in set(w)|set(f_) if w.get(x)!=f_.get(x)]; print("   ",k,[(x,w.get(x),f_.get(x)) for x in dk[:2]])
                        else: print("   ",k,str(w)[:80],"|",str(f_)[:80])
                break
    except Exception as e:
        print("seed",seed,"EXC",type(e).__name__,str(e)[:80],log[-2:])
    pr.close(); shutil.rmtree(d)
print("violations",viol,"time",time.time()-t0)
