from common import *
from rope.refactor import move, change_signature as cs
import collections
FILES = {
"base.py": '''K = 3
def scale(v):
    return v * K
def unused_here(v):
    return scale(v) + 1
class Item:
    def __init__(self, n):
        self.n = n
    def val(self):
        return scale(self.n)
LONE = 5
''',
"mid.py": '''import base
from base import scale as sc
LIMIT = 10
def clamp(v):
    if v > LIMIT:
        return LIMIT
    return sc(v) + base.K
def twice(v):
    return clamp(v) * 2
class Holder:
    def __init__(self):
        self.item = base.Item(2)
    def get(self):
        return self.item.val() + twice(1)
''',
"pkg/__init__.py": "",
"pkg/leaf.py": '''from mid import twice
import mid as m
from base import unused_here, Item
def leaf(v):
    return twice(v) + m.clamp(v) + unused_here(1) + Item(1).val() + m.LIMIT
''',
"main.py": '''import base, mid
from mid import clamp, Holder, LIMIT
from pkg.leaf import leaf
import pkg.leaf
from pkg import leaf as lf
import base as b
print(clamp(1), mid.clamp(20), mid.twice(3), Holder().get(), LIMIT, mid.LIMIT)
print(leaf(2), pkg.leaf.leaf(1), lf.leaf(3), base.unused_here(2), base.Item(3).val(), b.LONE, base.LONE)
''',
}
base = mkproj(FILES); want = run(base); print(want); shutil.rmtree(base)
def attempt(tag, fn):
    d = mkproj(FILES); pr = Project(d, ropefolder=None)
    try:
        try:
            ch = fn(pr); pr.do(ch)
        except rex.RopeError as ex:
            print(tag, "refused", str(ex)[:60]); return
        except Exception as ex:
            print(tag, "CRASH", type(ex).__name__, str(ex)[:80]); return
        got = run(d)
        # import every module in isolation
        iso = []
        for p in readall(d):
            if p.endswith(".py") and p!="main.py":
                mod = p[:-3].replace("/",".").replace(".__init__","")
                r = subprocess.run([sys.executable,"-B","-c","import "+mod], cwd=d, capture_output=True, text=True)
                if r.returncode: iso.append((mod, r.stderr.strip().splitlines()[-1][:60]))
        print(tag, "ok" if got==want and not iso else ("DIFF", got[1] or got[0], iso))
        if got!=want or iso: print(ch.get_description()[:1800])
    finally:
        pr.close(); shutil.rmtree(d)
def mv(path, name, dest):
    src = FILES[path]
    off = src.index("def "+name)+4 if "def "+name in src else (src.index("class "+name)+6 if "class "+name in src else src.index(name))
    attempt(("moveglobal", path, name, dest), lambda pr: move.create_move(pr, pr.get_resource(path), off).get_changes(pr.get_resource(dest)))
mv("mid.py","clamp","base.py"); mv("mid.py","twice","pkg/leaf.py"); mv("mid.py","LIMIT","base.py"); mv("mid.py","Holder","pkg/leaf.py")
mv("base.py","unused_here","mid.py"); mv("base.py","LONE","mid.py"); mv("base.py","unused_here","pkg/leaf.py"); mv("base.py","Item","mid.py")
attempt(("movemod","mid.py","pkg"), lambda pr: move.create_move(pr, pr.get_resource("mid.py")).get_changes(pr.get_resource("pkg")))
attempt(("movemod","base.py","pkg"), lambda pr: move.create_move(pr, pr.get_resource("base.py")).get_changes(pr.get_resource("pkg")))
attempt(("movemod","pkg/leaf.py","root"), lambda pr: move.create_move(pr, pr.get_resource("pkg/leaf.py")).get_changes(pr.root))
off = FILES["mid.py"].index("def get")+4
attempt(("movemethod","Holder.get","item"), lambda pr: move.create_move(pr, pr.get_resource("mid.py"), off).get_changes("item"))
